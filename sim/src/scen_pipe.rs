//! `pipe` (C09): two tasks over a simulated bounded pipe. The writer task emits a
//! constructed event sequence through the *async* writer API (short writes, Pending,
//! back-pressure), the reader task concurrently parses the other end with
//! read_event_into_async. Oracles: bytes that crossed the pipe == bytes of the sync
//! writer; events read back == events constructed (canonicalised); every payload
//! unescapes to the generator's string; an injected write error surfaces as Err
//! after exactly a prefix of the reference bytes.

use std::cell::RefCell;
use std::collections::VecDeque;
use std::io;
use std::pin::Pin;
use std::rc::Rc;
use std::task::{Context, Poll, Waker};

use quick_xml::events::{BytesCData, BytesDecl, BytesEnd, BytesPI, BytesStart, BytesText, Event};
use quick_xml::reader::Reader;
use quick_xml::writer::Writer;
use tokio::io::{AsyncBufRead, AsyncRead, AsyncWrite, ReadBuf};

use crate::core::{guard, PanicKind, Scenario, Stats, Tier, Violation};
use crate::exec::{run_tasks, ExecError, Task};
use crate::plan::*;
use crate::rng::Rng;
use crate::source::Timers;

// ---------------------------------------------------------------------------------
// the pipe

#[derive(Default)]
struct PipeState {
    q: VecDeque<u8>,
    cap: usize,
    closed: bool,
    /// the reading end stopped reading (it met an error): like a closed reading end of a
    /// socket pair whose peer keeps draining, writes succeed and the bytes go nowhere
    reader_gone: bool,
    rwaker: Option<Waker>,
    wwaker: Option<Waker>,
    /// every byte that ever crossed the pipe
    crossed: Vec<u8>,
    wcalls: usize,
    rcalls: usize,
    short_writes: u64,
    vectored_calls: u64,
    wpendings: u64,
    rpendings: u64,
    backpressure: u64,
    starved: u64,
    werr_fired: bool,
}

struct PipeWriter {
    st: Rc<RefCell<PipeState>>,
    plan: PipePlan,
    pend_left: Option<u8>,
}

struct PipeReader {
    st: Rc<RefCell<PipeState>>,
    plan: PipePlan,
    chunk: Vec<u8>,
    off: usize,
    pend_left: Option<u8>,
    /// the stream starts with a byte-order mark: the first piece handed to the reader
    /// holds all of it (the sniff looks at the first piece only — C02's stated exception)
    bom_first: bool,
}

fn cyc(v: &[u8], i: usize, dflt: u8) -> u8 {
    if v.is_empty() {
        dflt
    } else {
        v[i % v.len()]
    }
}

impl AsyncWrite for PipeWriter {
    fn poll_write(self: Pin<&mut Self>, cx: &mut Context<'_>, data: &[u8]) -> Poll<io::Result<usize>> {
        let this = self.get_mut();
        let mut st = this.st.borrow_mut();
        if data.is_empty() {
            return Poll::Ready(Ok(0));
        }
        let idx = st.wcalls;
        if this.pend_left.is_none() {
            this.pend_left = Some(cyc(&this.plan.wpend, idx, 0));
        }
        if let Some(n) = this.pend_left {
            if n > 0 {
                this.pend_left = Some(n - 1);
                st.wpendings += 1;
                cx.waker().wake_by_ref();
                return Poll::Pending;
            }
        }
        let mut accept = (cyc(&this.plan.accept, idx, 255).max(1) as usize).min(data.len());
        if let Some(k) = this.plan.werr_at {
            let left = (k as usize).saturating_sub(st.crossed.len());
            if left == 0 {
                st.werr_fired = true;
                return Poll::Ready(Err(io::Error::new(io::ErrorKind::BrokenPipe, "qxsim-werr")));
            }
            accept = accept.min(left);
        }
        if st.reader_gone {
            st.crossed.extend_from_slice(&data[..accept]);
            st.wcalls += 1;
            this.pend_left = None;
            return Poll::Ready(Ok(accept));
        }
        let free = st.cap.saturating_sub(st.q.len());
        if free == 0 {
            st.backpressure += 1;
            st.wwaker = Some(cx.waker().clone());
            return Poll::Pending;
        }
        accept = accept.min(free);
        if accept < data.len() {
            st.short_writes += 1;
        }
        st.q.extend(&data[..accept]);
        st.crossed.extend_from_slice(&data[..accept]);
        st.wcalls += 1;
        this.pend_left = None;
        if let Some(w) = st.rwaker.take() {
            w.wake();
        }
        Poll::Ready(Ok(accept))
    }
    fn is_write_vectored(&self) -> bool {
        self.plan.vectored
    }
    fn poll_write_vectored(mut self: Pin<&mut Self>, cx: &mut Context<'_>, bufs: &[io::IoSlice<'_>]) -> Poll<io::Result<usize>> {
        // the same acceptance rules as poll_write, applied to the concatenation of the slices
        let all: Vec<u8> = bufs.iter().flat_map(|b| b.iter().copied()).collect();
        self.st.borrow_mut().vectored_calls += 1;
        self.as_mut().poll_write(cx, &all)
    }
    fn poll_flush(self: Pin<&mut Self>, _: &mut Context<'_>) -> Poll<io::Result<()>> {
        Poll::Ready(Ok(()))
    }
    fn poll_shutdown(self: Pin<&mut Self>, _: &mut Context<'_>) -> Poll<io::Result<()>> {
        let mut st = self.st.borrow_mut();
        st.closed = true;
        if let Some(w) = st.rwaker.take() {
            w.wake();
        }
        Poll::Ready(Ok(()))
    }
}

impl PipeReader {
    fn refill(&mut self, cx: &mut Context<'_>) -> Poll<io::Result<()>> {
        if self.off < self.chunk.len() {
            return Poll::Ready(Ok(()));
        }
        let mut st = self.st.borrow_mut();
        let idx = st.rcalls;
        if self.pend_left.is_none() {
            self.pend_left = Some(cyc(&self.plan.rpend, idx, 0));
        }
        if let Some(n) = self.pend_left {
            if n > 0 {
                self.pend_left = Some(n - 1);
                st.rpendings += 1;
                cx.waker().wake_by_ref();
                return Poll::Pending;
            }
        }
        self.chunk.clear();
        self.off = 0;
        if st.q.is_empty() || (self.bom_first && idx == 0 && st.q.len() < 3 && !st.closed) {
            if st.closed {
                return Poll::Ready(Ok(()));
            }
            st.starved += 1;
            st.rwaker = Some(cx.waker().clone());
            return Poll::Pending;
        }
        let mut take = (cyc(&self.plan.take, idx, 255).max(1) as usize).min(st.q.len());
        if self.bom_first && idx == 0 {
            take = take.max(3.min(st.q.len()));
        }
        for _ in 0..take {
            self.chunk.push(st.q.pop_front().unwrap());
        }
        st.rcalls += 1;
        self.pend_left = None;
        if let Some(w) = st.wwaker.take() {
            w.wake();
        }
        Poll::Ready(Ok(()))
    }
}

impl AsyncBufRead for PipeReader {
    fn poll_fill_buf(self: Pin<&mut Self>, cx: &mut Context<'_>) -> Poll<io::Result<&[u8]>> {
        let this = self.get_mut();
        match this.refill(cx) {
            Poll::Ready(Ok(())) => Poll::Ready(Ok(&this.chunk[this.off..])),
            Poll::Ready(Err(e)) => Poll::Ready(Err(e)),
            Poll::Pending => Poll::Pending,
        }
    }
    fn consume(self: Pin<&mut Self>, amt: usize) {
        let this = self.get_mut();
        assert!(amt <= this.chunk.len() - this.off, "library consumed more than offered");
        this.off += amt;
    }
}

impl AsyncRead for PipeReader {
    fn poll_read(self: Pin<&mut Self>, cx: &mut Context<'_>, buf: &mut ReadBuf<'_>) -> Poll<io::Result<()>> {
        let this = self.get_mut();
        match this.refill(cx) {
            Poll::Ready(Ok(())) => {
                let n = (this.chunk.len() - this.off).min(buf.remaining());
                buf.put_slice(&this.chunk[this.off..this.off + n]);
                this.off += n;
                Poll::Ready(Ok(()))
            }
            Poll::Ready(Err(e)) => Poll::Ready(Err(e)),
            Poll::Pending => Poll::Pending,
        }
    }
}

// ---------------------------------------------------------------------------------
// the workload

fn apply_edits(name: &str, edits: &[Edit]) -> (BytesStart<'static>, String, Vec<(String, String)>) {
    // a tag that already carries attributes when the edits begin: built from raw content,
    // handed out by a reader, or borrowed from a template (the buffer is Cow::Borrowed then)
    let esc = |v: &str| v.replace('&', "&amp;").replace('<', "&lt;").replace('>', "&gt;").replace('"', "&quot;");
    let (content, init): (String, Vec<(String, String)>) = match edits.first() {
        Some(Edit::Origin { init, .. }) => {
            let mut c = name.to_string();
            for (k, v) in init {
                c.push_str(&format!(" {}=\"{}\"", k, esc(v)));
            }
            (c, init.clone())
        }
        _ => (name.to_string(), vec![]),
    };
    let doc = format!("<{}>", content);
    let mut template = BytesStart::new(name.to_string());
    let mut rd = quick_xml::Reader::from_str(&doc);
    let mut e: BytesStart = match edits.first() {
        Some(Edit::Origin { kind, .. }) => match kind % 4 {
            0 => BytesStart::from_content(content.clone(), name.len()),
            1 => BytesStart::from_content(content.as_str(), name.len()),
            2 => match rd.read_event() {
                Ok(Event::Start(s)) if s.name().as_ref() == name.as_bytes() => s,
                _ => BytesStart::from_content(content.as_str(), name.len()),
            },
            _ => {
                for (k, v) in &init {
                    template.push_attribute((k.as_str(), v.as_str()));
                }
                template.borrow()
            }
        },
        _ => BytesStart::new(name.to_string()),
    };
    let mut nm = name.to_string();
    let mut attrs: Vec<(String, String)> = init.clone();
    for ed in edits {
        match ed {
            Edit::Origin { .. } => {}
            Edit::Push(k, v) => {
                e.push_attribute((k.as_str(), v.as_str()));
                attrs.push((k.clone(), v.clone()));
            }
            Edit::PushOwned(k, v) => {
                e.push_attribute((k.as_str(), std::borrow::Cow::<str>::Owned(v.clone())));
                attrs.push((k.clone(), v.clone()));
            }
            Edit::PushCowBorrowed(k, v) => {
                e.push_attribute((k.as_str(), std::borrow::Cow::<str>::Borrowed(v.as_str())));
                attrs.push((k.clone(), v.clone()));
            }
            Edit::Extend(kv) => {
                e.extend_attributes(kv.iter().map(|(k, v)| (k.as_str(), v.as_str())));
                attrs.extend(kv.iter().cloned());
            }
            Edit::With(kv) => {
                e = e.with_attributes(kv.iter().map(|(k, v)| (k.as_str(), v.as_str())));
                attrs.extend(kv.iter().cloned());
            }
            Edit::SetName(n) => {
                e.set_name(n.as_bytes());
                nm = n.clone();
            }
            Edit::Clear => {
                e.clear_attributes();
                attrs.clear();
            }
        }
    }
    (e.into_owned(), nm, attrs)
}

/// one expected event plus what its payload must unescape/decode to
struct Expect {
    ev: Event<'static>,
    /// Text: plain string; Start/Empty: attribute list; CData: raw content
    plain: Option<String>,
    attrs: Option<Vec<(String, String)>>,
    /// Decl: (version, encoding, standalone) as given to BytesDecl::new
    decl: Option<(String, Option<String>, Option<String>)>,
    /// index of the build it came from
    build: usize,
}

fn xml_trim(s: &str, start: bool, end: bool) -> &str {
    let ws = |c: char| matches!(c, ' ' | '\t' | '\r' | '\n');
    let mut t = s;
    if start {
        t = t.trim_start_matches(ws);
    }
    if end {
        t = t.trim_end_matches(ws);
    }
    t
}

fn text_via(s: &str, mode: u8) -> BytesText<'static> {
    use quick_xml::escape::{escape, minimal_escape, partial_escape};
    match mode % 9 {
        // escaped by the caller with numeric character references (every markup and every
        // non-ASCII character, also beyond the BMP; NUL has no reference and stays raw)
        8 => {
            let mut t = String::new();
            for c in s.chars() {
                if c != '\0' && (!c.is_ascii() || matches!(c, '<' | '>' | '&' | '"' | '\'')) {
                    if (c as u32) % 2 == 0 {
                        t.push_str(&format!("&#x{:X};", c as u32));
                    } else {
                        t.push_str(&format!("&#{};", c as u32));
                    }
                } else {
                    t.push(c);
                }
            }
            BytesText::from_escaped(t)
        }
        0 => BytesText::from_escaped(escape(s).into_owned()),
        1 => BytesText::from_escaped(partial_escape(s).into_owned()),
        2 => BytesText::from_escaped(minimal_escape(s).into_owned()),
        3 => {
            let t = BytesText::new(s);
            let b = t.borrow().into_owned();
            b
        }
        4 => BytesText::new(s).into_owned(),
        5 => BytesCData::new(s).escape().map(|t| t.into_owned()).unwrap_or_else(|_| BytesText::new(s).into_owned()),
        6 => BytesCData::new(s).partial_escape().map(|t| t.into_owned()).unwrap_or_else(|_| BytesText::new(s).into_owned()),
        _ => BytesCData::new(s).minimal_escape().map(|t| t.into_owned()).unwrap_or_else(|_| BytesText::new(s).into_owned()),
    }
}

fn end_of(name: &str, attrs: bool) -> BytesEnd<'static> {
    let mut st = BytesStart::new(name);
    if attrs {
        st.push_attribute(("k", "v"));
    }
    st.to_end().into_owned()
}

fn trimmed_text(s: &str, start: bool, end: bool, owned: bool) -> BytesText<'_> {
    let mut t = BytesText::new(s);
    if owned {
        t = t.into_owned();
    }
    if start {
        t.inplace_trim_start();
    }
    if end {
        t.inplace_trim_end();
    }
    t
}

fn expected(builds: &[Build]) -> Vec<Expect> {
    let mut out = vec![];
    let mut decls: Vec<(usize, (String, Option<String>, Option<String>))> = vec![];
    for (bi, b) in builds.iter().enumerate() {
        let mut push = |ev: Event<'static>, plain: Option<String>, attrs: Option<Vec<(String, String)>>| {
            out.push(Expect { ev, plain, attrs, decl: None, build: bi })
        };
        match b {
            Build::Elem { empty, name, edits } => {
                let (e, _, attrs) = apply_edits(name, edits);
                push(if *empty { Event::Empty(e) } else { Event::Start(e) }, None, Some(attrs));
            }
            Build::End(n) => push(Event::End(BytesEnd::new(n.clone())), None, None),
            Build::EndOf { name, .. } => push(Event::End(BytesEnd::new(name.clone())), None, None),
            Build::TextVia { s, mode } => push(Event::Text(text_via(s, *mode)), Some(s.clone()), None),
            Build::Text(s) => push(Event::Text(BytesText::new(s).into_owned()), Some(s.clone()), None),
            Build::TextTrim { s, start, end, .. } => {
                let t = xml_trim(s, *start, *end);
                push(Event::Text(BytesText::new(t).into_owned()), Some(t.to_string()), None)
            }
            Build::CDataEscaped(s) => {
                let mut first = true;
                for c in BytesCData::escaped(s) {
                    push(Event::CData(c.into_owned()), if first { Some(s.clone()) } else { None }, None);
                    first = false;
                }
            }
            Build::CData(s) => push(Event::CData(BytesCData::new(s.clone())), Some(s.clone()), None),
            Build::Comment(s) => push(Event::Comment(BytesText::from_escaped(s.clone())), None, None),
            Build::PI(s) => push(Event::PI(BytesPI::new(s.clone())), None, None),
            Build::Decl { version, encoding, standalone } => {
                push(Event::Decl(BytesDecl::new(version, encoding.as_deref(), standalone.as_deref())), None, None);
                decls.push((bi, (version.clone(), encoding.clone(), standalone.clone())));
            }
            Build::DocType(s) => push(Event::DocType(BytesText::from_escaped(s.clone())), None, None),
            Build::Eof | Build::Indent => {}
            // at the very start the reader strips the mark; anywhere else it is text
            Build::Bom => {
                if bi > 0 {
                    push(Event::Text(BytesText::from_escaped("\u{feff}")), Some("\u{feff}".to_string()), None)
                }
            }
            Build::Builder { name, attrs, content, .. } => {
                let mut e = BytesStart::new(name.clone());
                for (k, v) in attrs {
                    e.push_attribute((k.as_str(), v.as_str()));
                }
                match content {
                    BuilderContent::Empty => push(Event::Empty(e), None, Some(attrs.clone())),
                    other => {
                        push(Event::Start(e), None, Some(attrs.clone()));
                        match other {
                            BuilderContent::Text(s) | BuilderContent::Inner(s) => {
                                push(Event::Text(BytesText::new(s).into_owned()), Some(s.clone()), None)
                            }
                            BuilderContent::CData(s) => push(Event::CData(BytesCData::new(s.clone())), Some(s.clone()), None),
                            BuilderContent::PI(s) => push(Event::PI(BytesPI::new(s.clone())), None, None),
                            BuilderContent::Empty => unreachable!(),
                        }
                        push(Event::End(BytesEnd::new(name.clone())), None, None);
                    }
                }
            }
        }
    }
    for (bi, d) in decls {
        if let Some(x) = out.iter_mut().find(|x| x.build == bi) {
            x.decl = Some(d);
        }
    }
    out
}

fn make_writer<W>(w: W, indent: Option<(u8, u8)>) -> Writer<W> {
    match indent {
        Some((c, n)) => Writer::new_with_indent(w, c, n as usize),
        None => Writer::new(w),
    }
}

/// A synchronous sink that behaves like a socket: every `write` accepts only the next
/// `accept` bytes of the Plan's pattern, `write_vectored` is implemented natively (one
/// budget spread over the slices in order), and a write is now and then interrupted.
struct ShortSink {
    data: Vec<u8>,
    accept: Vec<u8>,
    eintr: Vec<u8>,
    i: usize,
    pending_eintr: Option<u8>,
    pub short_writes: u64,
    pub vectored_calls: u64,
    pub eintrs: u64,
}

impl ShortSink {
    fn new(p: &PipePlan) -> ShortSink {
        ShortSink { data: vec![], accept: p.accept.clone(), eintr: p.wpend.clone(), i: 0, pending_eintr: None, short_writes: 0, vectored_calls: 0, eintrs: 0 }
    }
    /// budget of this call, or an interrupt first
    fn budget(&mut self) -> io::Result<usize> {
        let k = self.i;
        let left = match self.pending_eintr {
            Some(n) => n,
            None => {
                if self.eintr.is_empty() {
                    0
                } else {
                    self.eintr[k % self.eintr.len()].min(2)
                }
            }
        };
        if left > 0 {
            self.pending_eintr = Some(left - 1);
            self.eintrs += 1;
            return Err(io::Error::new(io::ErrorKind::Interrupted, "qxsim-eintr"));
        }
        self.pending_eintr = None;
        self.i += 1;
        Ok(if self.accept.is_empty() { usize::MAX } else { (self.accept[k % self.accept.len()] as usize).max(1) })
    }
}

impl io::Write for ShortSink {
    fn write(&mut self, buf: &[u8]) -> io::Result<usize> {
        let n = self.budget()?.min(buf.len());
        if n < buf.len() {
            self.short_writes += 1;
        }
        self.data.extend_from_slice(&buf[..n]);
        Ok(n)
    }
    fn write_vectored(&mut self, bufs: &[io::IoSlice<'_>]) -> io::Result<usize> {
        self.vectored_calls += 1;
        let mut left = self.budget()?;
        let mut n = 0;
        for b in bufs {
            let k = left.min(b.len());
            self.data.extend_from_slice(&b[..k]);
            n += k;
            left -= k;
            if left == 0 {
                break;
            }
        }
        Ok(n)
    }
    fn flush(&mut self) -> io::Result<()> {
        Ok(())
    }
}

fn emit_sync<W: io::Write>(builds: &[Build], w: &mut Writer<W>) -> io::Result<()> {
    for b in builds {
        match b {
            Build::Elem { empty, name, edits } => {
                let (e, _, _) = apply_edits(name, edits);
                w.write_event(if *empty { Event::Empty(e) } else { Event::Start(e) })?;
            }
            Build::End(n) => w.write_event(Event::End(BytesEnd::new(n.as_str())))?,
            Build::EndOf { name, attrs } => w.write_event(Event::End(end_of(name, *attrs)))?,
            Build::TextVia { s, mode } => w.write_event(Event::Text(text_via(s, *mode)))?,
            Build::Text(s) => w.write_event(Event::Text(BytesText::new(s)))?,
            Build::TextTrim { s, start, end, owned } => w.write_event(Event::Text(trimmed_text(s, *start, *end, *owned)))?,
            Build::CDataEscaped(s) => {
                for c in BytesCData::escaped(s) {
                    w.write_event(Event::CData(c))?;
                }
            }
            Build::CData(s) => w.write_event(Event::CData(BytesCData::new(s.as_str())))?,
            Build::Comment(s) => w.write_event(Event::Comment(BytesText::from_escaped(s.as_str())))?,
            Build::PI(s) => w.write_event(Event::PI(BytesPI::new(s.as_str())))?,
            Build::Decl { version, encoding, standalone } => {
                w.write_event(Event::Decl(BytesDecl::new(version, encoding.as_deref(), standalone.as_deref())))?
            }
            Build::DocType(s) => w.write_event(Event::DocType(BytesText::from_escaped(s.as_str())))?,
            Build::Eof => w.write_event(Event::Eof)?,
            Build::Bom => w.write_bom()?,
            Build::Indent => w.write_indent()?,
            Build::Builder { name, attrs, content, nl } => {
                let mut ew = w.create_element(name.as_str());
                for (i, (k, v)) in attrs.iter().enumerate() {
                    if i < 7 && nl & (1 << i) != 0 {
                        ew = ew.new_line();
                    }
                    if nl & 0x80 != 0 && i >= 1 {
                        ew = ew.with_attributes(attrs[i..].iter().map(|(k, v)| (k.as_str(), v.as_str())));
                        break;
                    }
                    ew = ew.with_attribute((k.as_str(), v.as_str()));
                }
                match content {
                    BuilderContent::Empty => {
                        ew.write_empty()?;
                    }
                    BuilderContent::Text(s) => {
                        ew.write_text_content(BytesText::new(s))?;
                    }
                    BuilderContent::CData(s) => {
                        ew.write_cdata_content(BytesCData::new(s.as_str()))?;
                    }
                    BuilderContent::PI(s) => {
                        ew.write_pi_content(BytesPI::new(s.as_str()))?;
                    }
                    BuilderContent::Inner(s) => {
                        ew.write_inner_content(|w| w.write_event(Event::Text(BytesText::new(s))))?;
                    }
                }
            }
        }
    }
    Ok(())
}

async fn emit_async(builds: &[Build], w: &mut Writer<PipeWriter>) -> quick_xml::Result<()> {
    for b in builds {
        match b {
            Build::Elem { empty, name, edits } => {
                let (e, _, _) = apply_edits(name, edits);
                w.write_event_async(if *empty { Event::Empty(e) } else { Event::Start(e) }).await?;
            }
            Build::End(n) => w.write_event_async(Event::End(BytesEnd::new(n.as_str()))).await?,
            Build::EndOf { name, attrs } => w.write_event_async(Event::End(end_of(name, *attrs))).await?,
            Build::TextVia { s, mode } => w.write_event_async(Event::Text(text_via(s, *mode))).await?,
            Build::Text(s) => w.write_event_async(Event::Text(BytesText::new(s))).await?,
            Build::TextTrim { s, start, end, owned } => w.write_event_async(Event::Text(trimmed_text(s, *start, *end, *owned))).await?,
            Build::CDataEscaped(s) => {
                for c in BytesCData::escaped(s) {
                    w.write_event_async(Event::CData(c)).await?;
                }
            }
            Build::CData(s) => w.write_event_async(Event::CData(BytesCData::new(s.as_str()))).await?,
            Build::Comment(s) => w.write_event_async(Event::Comment(BytesText::from_escaped(s.as_str()))).await?,
            Build::PI(s) => w.write_event_async(Event::PI(BytesPI::new(s.as_str()))).await?,
            Build::Decl { version, encoding, standalone } => {
                w.write_event_async(Event::Decl(BytesDecl::new(version, encoding.as_deref(), standalone.as_deref()))).await?
            }
            Build::DocType(s) => w.write_event_async(Event::DocType(BytesText::from_escaped(s.as_str()))).await?,
            Build::Eof => w.write_event_async(Event::Eof).await?,
            Build::Bom => {
                // there is no async write_bom: the documented way is the same three bytes
                use tokio::io::AsyncWriteExt;
                w.get_mut().write_all(&[0xEF, 0xBB, 0xBF]).await?
            }
            Build::Indent => w.write_indent_async().await?,
            Build::Builder { name, attrs, content, nl } => {
                let mut ew = w.create_element(name.as_str());
                for (i, (k, v)) in attrs.iter().enumerate() {
                    if i < 7 && nl & (1 << i) != 0 {
                        ew = ew.new_line();
                    }
                    if nl & 0x80 != 0 && i >= 1 {
                        ew = ew.with_attributes(attrs[i..].iter().map(|(k, v)| (k.as_str(), v.as_str())));
                        break;
                    }
                    ew = ew.with_attribute((k.as_str(), v.as_str()));
                }
                match content {
                    BuilderContent::Empty => {
                        ew.write_empty_async().await?;
                    }
                    BuilderContent::Text(s) => {
                        ew.write_text_content_async(BytesText::new(s)).await?;
                    }
                    BuilderContent::CData(s) => {
                        ew.write_cdata_content_async(BytesCData::new(s.as_str())).await?;
                    }
                    BuilderContent::PI(s) => {
                        ew.write_pi_content_async(BytesPI::new(s.as_str())).await?;
                    }
                    BuilderContent::Inner(s) => {
                        ew.write_inner_content_async(|w| async move {
                            w.write_event_async(Event::Text(BytesText::new(s))).await?;
                            Ok::<_, quick_xml::Error>(w)
                        })
                        .await?;
                    }
                }
            }
        }
    }
    Ok(())
}

// ---------------------------------------------------------------------------------
// generators

const P_NAMES: &[&str] = &["a", "ab", "a:b", "x-y", "_z", "\u{e9}l", "n1", "A.b"];
const P_KEYS: &[&str] = &["k", "id", "p:k", "xml:lang", "k2", "\u{fc}", "ID", "K", "Id", "\u{dc}"];
const P_STRS: &[&str] = &[
    "", "x", "a b", "<", ">", "&", "\"", "'", "]]>", "--", "?>", "a]]>b", "]]", "\u{e9}", "&amp;", " lead", "trail ", "\n",
    "<a>", "</a>", "-", "?", "=", "\u{fc}]]>]]>", "\u{65e5}\u{672c}", "]]>]]>", "]", "]>", "a\"b'c", "&#x41;", "<!--", "-->",
    "<![CDATA[", "\t", "  ", "1 < 2 && 3 > 2", "]]]>", "]]>x", "x]]>",
    // "arbitrary values": control characters, line ends of every kind, non-characters
    "\u{0}", "a\u{0}b", "\u{1}", "\u{8}", "\u{b}", "\u{c}", "\u{1f}", "\u{7f}", "\u{85}", "\u{a0}", "\u{2028}", "\u{fffd}", "\u{ffff}", "\u{10ffff}", "\r", "\r\n", "x\ry", "\u{20bb7}", "\u{1f600}\u{f0001}",
];

fn pstr(rng: &mut Rng) -> String {
    if rng.chance(1, 8) {
        // every length up to ~100 turns up, so that fixed-size fast paths are crossed
        let n = if rng.bool() { rng.range(40, 80) } else { rng.range(1, 140) };
        let alpha = *rng.pick(&["v", "ab c", "x<y", "\u{e9}z", "q&'"]);
        return alpha.chars().cycle().take(n).collect();
    }
    let mut s = String::new();
    for _ in 0..rng.range(1, 2) {
        s.push_str(*rng.pick(P_STRS));
    }
    s
}

fn pstr_where(rng: &mut Rng, ok: impl Fn(&str) -> bool) -> String {
    for _ in 0..30 {
        let s = pstr(rng);
        if ok(&s) {
            return s;
        }
    }
    "x".to_string()
}

fn kv(rng: &mut Rng) -> (String, String) {
    (rng.pick(P_KEYS).to_string(), pstr(rng))
}

fn balanced_angles(s: &str) -> bool {
    let mut d = 0i32;
    for c in s.chars() {
        if c == '<' {
            d += 1
        } else if c == '>' {
            if d == 0 {
                return false;
            }
            d -= 1;
        }
    }
    d == 0
}

fn gen_build(rng: &mut Rng, open: &mut Vec<String>) -> Build {
    if rng.chance(1, 40) {
        return Build::Eof;
    }
    match rng.below(16) {
        0..=3 => {
            let name = rng.pick(P_NAMES).to_string();
            let mut edits = vec![];
            if rng.chance(1, 3) {
                let mut init: Vec<(String, String)> = vec![];
                for _ in 0..rng.below(3) {
                    let (k, v) = kv(rng);
                    if !init.iter().any(|(ek, _)| *ek == k) {
                        init.push((k, v));
                    }
                }
                edits.push(Edit::Origin { kind: rng.below(4) as u8, init });
            }
            for _ in 0..rng.below(4) {
                edits.push(match rng.below(8) {
                    0 | 1 => {
                        let (k, v) = kv(rng);
                        Edit::Push(k, v)
                    }
                    2 => {
                        let (k, v) = kv(rng);
                        Edit::PushOwned(k, v)
                    }
                    3 => {
                        let (k, v) = kv(rng);
                        Edit::PushCowBorrowed(k, v)
                    }
                    4 => Edit::Extend((0..rng.below(3)).map(|_| kv(rng)).collect()),
                    5 => Edit::With((0..rng.below(3)).map(|_| kv(rng)).collect()),
                    6 => Edit::SetName(rng.pick(P_NAMES).to_string()),
                    _ => Edit::Clear,
                });
            }
            let empty = rng.chance(1, 3);
            if !empty {
                let (_, nm, _) = apply_edits(&name, &edits);
                open.push(nm);
            }
            Build::Elem { empty, name, edits }
        }
        4 | 5 => {
            let n = if rng.chance(4, 5) { open.pop() } else { None };
            let n = n.unwrap_or_else(|| rng.pick(P_NAMES).to_string());
            if rng.chance(1, 4) {
                Build::EndOf { name: n, attrs: rng.bool() }
            } else {
                Build::End(n)
            }
        }
        6 => {
            if rng.chance(1, 2) {
                Build::Text(pstr(rng))
            } else {
                Build::TextVia { s: pstr(rng), mode: rng.below(9) as u8 }
            }
        }
        7 => {
            if rng.chance(1, 2) {
                Build::Text(pstr(rng))
            } else {
                // blanks of all four kinds around a pool string, trimmed in place before writing
                let pad = |rng: &mut Rng| (0..rng.below(4)).map(|_| *rng.pick(&[" ", "\t", "\n", "\r", "  "])).collect::<String>();
                let s = format!("{}{}{}", pad(rng), pstr(rng), pad(rng));
                Build::TextTrim { s, start: rng.bool(), end: rng.bool(), owned: rng.bool() }
            }
        }
        8 | 9 => Build::CDataEscaped(pstr(rng)),
        10 => Build::CData(pstr_where(rng, |s| !s.contains("]]>"))),
        11 => Build::Comment(pstr_where(rng, |s| !s.contains("--") && !s.ends_with('-'))),
        12 => {
            let target = *rng.pick(&["pi", "x-y", "xsl", "p1"]);
            let body = pstr_where(rng, |s| !s.contains("?>"));
            Build::PI(if body.is_empty() { target.to_string() } else { format!("{} {}", target, body) })
        }
        13 => {
            if rng.bool() {
                Build::Decl {
                    version: rng.pick(&["1.0", "1.1"]).to_string(),
                    encoding: if rng.bool() { Some("UTF-8".to_string()) } else { None },
                    standalone: if rng.bool() { Some(rng.pick(&["yes", "no"]).to_string()) } else { None },
                }
            } else {
                Build::DocType(pstr_where(rng, |s| {
                    !s.is_empty() && !s.starts_with(|c: char| c.is_whitespace()) && balanced_angles(s)
                }))
            }
        }
        _ => {
            let content = match rng.below(5) {
                0 => BuilderContent::Empty,
                1 => BuilderContent::Text(pstr(rng)),
                2 => BuilderContent::CData(pstr_where(rng, |s| !s.contains("]]>"))),
                3 => {
                    let body = pstr_where(rng, |s| !s.contains("?>"));
                    BuilderContent::PI(format!("pi {}", body))
                }
                _ => BuilderContent::Inner(pstr(rng)),
            };
            Build::Builder {
                name: rng.pick(P_NAMES).to_string(),
                attrs: (0..rng.below(4)).map(|_| kv(rng)).collect(),
                content,
                nl: if rng.chance(1, 3) { rng.below(256) as u8 } else { 0 },
            }
        }
    }
}

pub struct Pipe;

impl Scenario for Pipe {
    fn name(&self) -> &'static str {
        "pipe"
    }
    fn panic_prop(&self) -> &'static str {
        "C09"
    }
    fn gen(&self, rng: &mut Rng, base_seed: u64, run: u64, _tier: Tier) -> Plan {
        let mut p = Plan::new("pipe", base_seed, run);
        let mut open = vec![];
        if rng.chance(1, 25) {
            p.builds.push(Build::Bom);
        }
        for _ in 0..rng.range(1, 12) {
            if rng.chance(1, 30) {
                p.builds.push(Build::Indent);
            }
            p.builds.push(gen_build(rng, &mut open));
        }
        if rng.chance(1, 12) {
            // cross size thresholds: indentation deeper than the preallocated 128 bytes,
            // payloads longer than a pipe / BufReader capacity, a long name
            match rng.below(3) {
                0 => {
                    let d = *rng.pick(&[16usize, 40, 90]);
                    let mut pre: Vec<Build> = (0..d).map(|_| Build::Elem { empty: false, name: "n".into(), edits: vec![] }).collect();
                    pre.append(&mut p.builds);
                    p.builds = pre;
                    for _ in 0..d {
                        open.insert(0, "n".to_string());
                    }
                    p.note.push_str("stretched: deep; ");
                }
                1 => {
                    let n = *rng.pick(&[130usize, 700, 9000]);
                    let long: String = "x<&\"y ".chars().cycle().take(n).collect();
                    p.builds.push(Build::Text(long.clone()));
                    p.builds.push(Build::Elem { empty: true, name: "a".into(), edits: vec![Edit::Push("k".into(), long)] });
                    p.note.push_str("stretched: long payloads; ");
                }
                _ => {
                    let nm = format!("a{}", "n".repeat(*rng.pick(&[17usize, 65, 300])));
                    p.builds.push(Build::Elem { empty: false, name: "ab".into(), edits: vec![Edit::Push("k".into(), "v".into()), Edit::SetName(nm.clone())] });
                    p.builds.push(Build::End(nm));
                    p.note.push_str("stretched: long name; ");
                }
            }
        }
        if rng.bool() {
            while let Some(n) = open.pop() {
                p.builds.push(Build::End(n));
            }
        }
        let small = |rng: &mut Rng, max: usize| -> Vec<u8> { (0..rng.range(1, 6)).map(|_| rng.range(1, max) as u8).collect() };
        let pend = |rng: &mut Rng| -> Vec<u8> { (0..rng.range(1, 6)).map(|_| if rng.chance(1, 4) { rng.range(1, 3) as u8 } else { 0 }).collect() };
        let cap_choice = *rng.pick(&[1u32, 2, 3, 5, 8, 16, 64, 4096]);
        let amax = *rng.pick(&[1usize, 2, 3, 7, 40]);
        let tmax = *rng.pick(&[1usize, 2, 3, 7, 40]);
        p.pipe = PipePlan {
            capacity: cap_choice,
            accept: if rng.chance(1, 5) { vec![255] } else { small(rng, amax) },
            wpend: pend(rng),
            take: if rng.chance(1, 5) { vec![255] } else { small(rng, tmax) },
            rpend: pend(rng),
            sched: (0..rng.range(1, 12)).map(|_| if rng.chance(1, 12) { 240 + rng.below(4) as u8 } else { rng.below(8) as u8 }).collect(),
            werr_at: None,
            indent: if rng.chance(1, 3) { Some((*rng.pick(&[b' ', b'\t']), rng.below(10) as u8)) } else { None },
            vectored: false,
        };
        p.pipe.vectored = rng.chance(1, 3);
        if !p.pipe.sched.iter().any(|&c| c < 240) {
            p.pipe.sched.push(0);
        }
        if rng.chance(1, 10) {
            p.pipe.werr_at = Some(rng.below(60) as u32);
        }
        p
    }

    fn exec(&self, plan: &Plan, st: &mut Stats) -> Vec<Violation> {
        let mut out = vec![];
        let builds = &plan.builds;
        // --- reference: the synchronous writer ---
        let ref_bytes = match guard(|| {
            let mut w = make_writer(Vec::new(), plan.pipe.indent);
            emit_sync(builds, &mut w).map(|_| w.into_inner())
        }) {
            Ok(Ok(b)) => b,
            Ok(Err(e)) => {
                out.push(Violation::new("C09", "sync-writer-failed", format!("writing to a Vec failed: {:?}", e)));
                return out;
            }
            Err(p) => {
                push_panic(&p, plan, "sync writer", &mut out);
                return out;
            }
        };
        st.executions += 1;
        // --- the synchronous writer over a sink that takes a few bytes per call ---
        match guard(|| {
            let mut w = make_writer(ShortSink::new(&plan.pipe), plan.pipe.indent);
            emit_sync(builds, &mut w).map(|_| w.into_inner())
        }) {
            Ok(Ok(sink)) => {
                st.executions += 1;
                st.add("fault.sync_short_write", sink.short_writes);
                st.add("fault.sync_write_eintr", sink.eintrs);
                st.add("sync_sink.write_vectored_calls", sink.vectored_calls);
                if sink.data != ref_bytes {
                    out.push(Violation::new(
                        "C09",
                        "sync-bytes-differ-under-short-writes",
                        format!("sync writer into a Vec wrote {:?}; into a sink that accepts a few bytes per write / write_vectored call it wrote {:?}", crate::core::lossy(&ref_bytes), crate::core::lossy(&sink.data)),
                    ));
                    return out;
                }
            }
            Ok(Err(e)) => {
                out.push(Violation::new("C09", "sync-writer-failed", format!("writing to a sink that accepts a few bytes per call failed: {:?}", e)));
                return out;
            }
            Err(p) => {
                push_panic(&p, plan, "sync writer over a short-writing sink", &mut out);
                return out;
            }
        }
        let bom_first = matches!(builds.first(), Some(Build::Bom));
        // (a pipe that cannot hold the whole byte-order mark could never deliver it in one piece)
        let cap = if bom_first { plan.pipe.capacity.max(4) } else { plan.pipe.capacity.max(1) } as usize;
        let state = Rc::new(RefCell::new(PipeState { cap, ..Default::default() }));
        let timers = Timers::default();
        let write_result: RefCell<Option<Result<(), String>>> = RefCell::new(None);
        let read_events: RefCell<Vec<Result<Event<'static>, String>>> = RefCell::new(vec![]);
        let read_budget = ref_bytes.len() * 2 + 16;
        let run = guard(|| {
            let pw = PipeWriter { st: state.clone(), plan: plan.pipe.clone(), pend_left: None };
            let pr = PipeReader { st: state.clone(), plan: plan.pipe.clone(), chunk: vec![], off: 0, pend_left: None, bom_first: matches!(builds.first(), Some(Build::Bom)) };
            let wres = &write_result;
            let revs = &read_events;
            let rstate = state.clone();
            let writer_task = async move {
                use tokio::io::AsyncWriteExt;
                let mut w = make_writer(pw, plan.pipe.indent);
                let r = emit_async(builds, &mut w).await;
                let _ = w.get_mut().shutdown().await;
                *wres.borrow_mut() = Some(r.map_err(|e| format!("{:?}", e)));
            };
            let reader_task = async move {
                let mut r = Reader::from_reader(pr);
                let c = r.config_mut();
                c.check_end_names = false;
                c.allow_unmatched_ends = true;
                let mut buf = Vec::new();
                loop {
                    buf.clear();
                    match r.read_event_into_async(&mut buf).await {
                        Ok(Event::Eof) => break,
                        Ok(e) => revs.borrow_mut().push(Ok(e.into_owned())),
                        Err(e) => {
                            revs.borrow_mut().push(Err(format!("{:?}", e)));
                            break;
                        }
                    }
                    if revs.borrow().len() > read_budget {
                        revs.borrow_mut().push(Err("read budget exceeded".into()));
                        break;
                    }
                }
                // a reader that gave up must not leave the writer blocked on a full pipe
                let mut st = rstate.borrow_mut();
                st.reader_gone = true;
                if let Some(w) = st.wwaker.take() {
                    w.wake();
                }
            };
            let mut tasks = [Task::new(writer_task), Task::new(reader_task)];
            let max_ticks = (ref_bytes.len() as u64 + 64) * 64 + 10_000;
            run_tasks(&mut tasks, &plan.pipe.sched, &timers, max_ticks)
        });
        st.executions += 1;
        let es = match run {
            Ok(Ok(es)) => es,
            Ok(Err(ExecError::Deadlock)) => {
                // the stubs wake their peer on every transfer and the reader releases the writer
                // when it gives up, so writer and reader can only both be parked if the library
                // dropped a wake-up or stopped driving its sink / source
                out.push(Violation::new("C09", "pipeline-stalled", "writer task and reader task are both parked with nothing scheduled to wake them".into()));
                return out;
            }
            Ok(Err(ExecError::Budget)) => {
                out.push(Violation::new("C09", "non-termination", "writer/reader pipeline exceeded its tick budget".into()));
                return out;
            }
            Err(p) => {
                push_panic(&p, plan, "pipeline", &mut out);
                return out;
            }
        };
        let ps = state.borrow();
        st.ticks += es.ticks;
        st.add("fault.short_write", ps.short_writes);
        st.add("async_sink.write_vectored_calls", ps.vectored_calls);
        st.add("fault.write_pending", ps.wpendings);
        st.add("fault.read_pending", ps.rpendings);
        st.add("fault.backpressure_pending", ps.backpressure);
        st.add("fault.reader_starved_pending", ps.starved);
        st.add("fault.write_error", ps.werr_fired as u64);
        st.note_schedule(crate::rng::mix64(es.order_hash ^ ps.wcalls as u64 ^ ((ps.rcalls as u64) << 32)));
        st.add("sched.task_switches", es.switches);
        st.add("sched.spurious_polls", es.spurious);
        if plan.pipe.indent.is_some() {
            st.bump("pipe.indented");
        }
        let wres = write_result.borrow().clone();
        let crossed = &ps.crossed;
        // (c) injected write error
        if ps.werr_fired {
            match &wres {
                Some(Err(_)) => {}
                other => out.push(Violation::new("C09", "write-error-lost", format!("sink failed after {} bytes but the async writer returned {:?}", crossed.len(), other))),
            }
            if !ref_bytes.starts_with(crossed) {
                out.push(Violation::new(
                    "C09",
                    "async-bytes-differ",
                    format!("before the injected write error the async writer had sent {:?}, not a prefix of the sync output {:?}", crate::core::lossy(crossed), crate::core::lossy(&ref_bytes)),
                ));
            }
            st.note_distinct(plan.hash64(), true);
            st.fold_digest(plan.run, crate::plan::fnv_bytes(crossed));
            return out;
        }
        // (a) async writer == sync writer
        if let Some(Err(e)) = &wres {
            out.push(Violation::new("C09", "async-writer-failed", format!("async writer failed without an injected fault: {}", e)));
        }
        if *crossed != ref_bytes {
            out.push(Violation::new(
                "C09",
                "async-bytes-differ",
                format!("async writer sent {:?}, sync writer wrote {:?}", crate::core::lossy(crossed), crate::core::lossy(&ref_bytes)),
            ));
        }
        // (b) read back == constructed
        {
            // with indentation the writer adds blank text between markup (never next to other
            // text): the comparison then leaves blank-only text runs out on both sides
            let exp = expected(builds);
            let got = read_events.borrow();
            check_readback(&exp, &got, &ref_bytes, plan.pipe.indent.is_some(), &mut out);
        }
        let nontrivial = ps.starved > 0 && (ps.short_writes > 0 || ps.backpressure > 0);
        st.note_distinct(plan.hash64(), nontrivial);
        st.fold_digest(plan.run, crate::plan::fnv_bytes(crossed) ^ es.ticks);
        out
    }
}

fn push_panic(p: &crate::core::PanicInfo, plan: &Plan, what: &str, out: &mut Vec<Violation>) {
    match p.kind {
        PanicKind::Harness | PanicKind::Exec => crate::core::harness_fail(what, p, plan),
        PanicKind::Library => out.push(Violation::new("C09", "panic", format!("{}: panic at {}: {}", what, p.loc, p.msg))),
        PanicKind::Budget => out.push(Violation::new("C09", "non-termination", format!("{}: {}", what, p.msg))),
        PanicKind::Misuse => out.push(Violation::new("C09", "seam-misuse", format!("{}: {}", what, p.msg))),
    }
}

#[derive(PartialEq, Debug, Clone)]
struct Canon {
    kind: &'static str,
    bytes: Vec<u8>,
    name_len: usize,
}

fn canon_of(e: &Event<'_>) -> Canon {
    let (kind, name_len) = match e {
        Event::Start(s) => ("Start", s.name().as_ref().len()),
        Event::Empty(s) => ("Empty", s.name().as_ref().len()),
        Event::End(_) => ("End", 0),
        Event::Text(_) => ("Text", 0),
        Event::CData(_) => ("CData", 0),
        Event::Comment(_) => ("Comment", 0),
        Event::PI(p) => ("PI", p.target().len()),
        Event::Decl(_) => ("Decl", 0),
        Event::DocType(_) => ("DocType", 0),
        Event::Eof => ("Eof", 0),
    };
    let bytes = match e {
        Event::Start(s) | Event::Empty(s) => {
            let mut b = s.name().as_ref().to_vec();
            for a in s.attributes().with_checks(false) {
                b.push(0);
                match a {
                    Ok(a) => {
                        b.extend_from_slice(a.key.as_ref());
                        b.push(b'=');
                        b.extend_from_slice(&a.value);
                    }
                    Err(err) => {
                        b.extend_from_slice(format!("<attribute error {:?}>", err).as_bytes());
                        break;
                    }
                }
            }
            b
        }
        _ => e.to_vec(),
    };
    Canon { kind, bytes, name_len }
}

/// adjacent Text coalesced, empty Text dropped
fn canonicalise(v: Vec<Canon>) -> Vec<Canon> {
    let mut out: Vec<Canon> = vec![];
    for c in v {
        if c.kind == "Text" {
            if c.bytes.is_empty() {
                continue;
            }
            if let Some(l) = out.last_mut() {
                if l.kind == "Text" {
                    l.bytes.extend_from_slice(&c.bytes);
                    continue;
                }
            }
        }
        out.push(c);
    }
    out
}

fn show_canon(v: &[Canon]) -> String {
    v.iter().map(|c| format!("{}({:?})", c.kind, String::from_utf8_lossy(&c.bytes))).collect::<Vec<_>>().join(" ")
}

fn check_readback(exp: &[Expect], got: &[Result<Event<'static>, String>], bytes: &[u8], indented: bool, out: &mut Vec<Violation>) {
    let blank = |b: &[u8]| b.iter().all(|c| matches!(c, b' ' | b'\t' | b'\r' | b'\n'));
    if let Some(Err(e)) = got.iter().find(|g| g.is_err()) {
        out.push(Violation::new(
            "C09",
            "readback-differs",
            format!("reading back {:?} failed: {}", crate::core::lossy(bytes), e),
        ));
        return;
    }
    let got_events: Vec<&Event<'static>> = got.iter().map(|g| g.as_ref().unwrap()).collect();
    let mut want = canonicalise(exp.iter().map(|x| canon_of(&x.ev)).collect());
    let mut have = canonicalise(got_events.iter().map(|e| canon_of(e)).collect());
    if indented {
        // indentation (automatic between markup, or asked for with write_indent before, after
        // or between texts) only ever ADDS blanks to character data: text runs are compared
        // with their blanks taken out, blank-only runs not at all. (Which blanks exactly is
        // C19's subject, a pure function of the event sequence.)
        for v in [&mut want, &mut have] {
            for c in v.iter_mut().filter(|c| c.kind == "Text") {
                c.bytes.retain(|b| !blank(&[*b]));
            }
            v.retain(|c| !(c.kind == "Text" && c.bytes.is_empty()));
        }
    }
    if want != have {
        let i = (0..want.len().min(have.len())).find(|&i| want[i] != have[i]).unwrap_or(want.len().min(have.len()));
        out.push(Violation::new(
            "C09",
            "readback-differs",
            format!(
                "bytes {:?}: constructed events [{}], read back [{}] (first difference at canonical event {})",
                crate::core::lossy(bytes),
                show_canon(&want),
                show_canon(&have),
                i
            ),
        ));
        return;
    }
    // payloads: every text and attribute value unescapes to the generator's string
    // texts: concatenation over runs of adjacent Text events
    let mut want_texts: Vec<String> = vec![];
    let mut run: Option<String> = None;
    for x in exp {
        if let Event::Text(_) = x.ev {
            run.get_or_insert_with(String::new).push_str(x.plain.as_deref().unwrap_or(""));
        } else if let Some(r) = run.take() {
            want_texts.push(r);
        }
    }
    if let Some(r) = run.take() {
        want_texts.push(r);
    }
    let ws: &[char] = &[' ', '\t', '\r', '\n'];
    let edge = |t: String| -> String { if indented { t.chars().filter(|c| !ws.contains(c)).collect() } else { t } };
    let want_texts: Vec<String> = want_texts.into_iter().map(edge).filter(|t| !t.is_empty()).collect();
    let mut have_texts: Vec<String> = vec![];
    for e in &got_events {
        if let Event::Text(t) = e {
            match t.unescape() {
                Ok(s) => have_texts.push(s.into_owned()),
                Err(err) => {
                    out.push(Violation::new("C09", "payload-differs", format!("text {:?} does not unescape: {:?}", t, err)));
                    return;
                }
            }
        }
    }
    if indented {
        have_texts = have_texts.into_iter().map(edge).filter(|t| !t.is_empty()).collect();
    }
    if want_texts != have_texts {
        out.push(Violation::new("C09", "payload-differs", format!("texts written {:?}, texts read back {:?}", want_texts, have_texts)));
        return;
    }
    // attributes, in order
    let want_attrs: Vec<&Vec<(String, String)>> = exp.iter().filter_map(|x| x.attrs.as_ref()).collect();
    let mut k = 0;
    for e in &got_events {
        if let Event::Start(s) | Event::Empty(s) = e {
            let mut have: Vec<(String, String)> = vec![];
            for a in s.attributes().with_checks(false) {
                match a {
                    Ok(a) => match a.unescape_value_compat() {
                        Ok(v) => have.push((String::from_utf8_lossy(a.key.as_ref()).into_owned(), v)),
                        Err(err) => {
                            out.push(Violation::new("C09", "payload-differs", format!("attribute of {:?} does not unescape: {}", s, err)));
                            return;
                        }
                    },
                    Err(err) => {
                        out.push(Violation::new("C09", "payload-differs", format!("attributes of {:?} do not iterate: {:?}", s, err)));
                        return;
                    }
                }
            }
            if Some(&&have) != want_attrs.get(k) {
                out.push(Violation::new("C09", "payload-differs", format!("attributes pushed {:?}, read back {:?}", want_attrs.get(k), have)));
                return;
            }
            // pairwise different names (byte for byte): the default, checking iterator must
            // hand out the same list; names that differ in case only are different names
            let distinct = (0..have.len()).all(|i| (0..i).all(|j| have[i].0 != have[j].0));
            if distinct {
                let checked: Vec<Result<String, String>> = s
                    .attributes()
                    .map(|a| a.map(|a| String::from_utf8_lossy(a.key.as_ref()).into_owned()).map_err(|e| format!("{:?}", e)))
                    .collect();
                let want: Vec<Result<String, String>> = have.iter().map(|(k, _)| Ok(k.clone())).collect();
                if checked != want {
                    out.push(Violation::new("C09", "payload-differs", format!("attributes pushed {:?} (all names different); the checking iterator gives {:?}", have, checked)));
                    return;
                }
            }
            k += 1;
        }
    }
    // declarations: the three pseudo-attributes read back as given
    let want_decls: Vec<&(String, Option<String>, Option<String>)> = exp.iter().filter_map(|x| x.decl.as_ref()).collect();
    let mut k = 0;
    for e in &got_events {
        if let Event::Decl(d) = e {
            let have = (
                d.version().ok().map(|v| String::from_utf8_lossy(&v).into_owned()),
                d.encoding().map(|r| r.ok().map(|v| String::from_utf8_lossy(&v).into_owned())),
                d.standalone().map(|r| r.ok().map(|v| String::from_utf8_lossy(&v).into_owned())),
            );
            if let Some(w) = want_decls.get(k) {
                let want = (Some(w.0.clone()), w.1.clone().map(Some), w.2.clone().map(Some));
                if have != want {
                    out.push(Violation::new("C09", "payload-differs", format!("declaration built from {:?} reads back as version={:?} encoding={:?} standalone={:?}", w, have.0, have.1, have.2)));
                    return;
                }
            }
            k += 1;
        }
    }
    // CDATA built by the splitting constructor: concatenation gives the original content
    let mut gi = 0usize;
    let cdatas: Vec<&Event<'static>> = got_events.iter().copied().filter(|e| matches!(e, Event::CData(_))).collect();
    let mut bi = 0;
    while bi < exp.len() {
        if let Event::CData(_) = exp[bi].ev {
            let b = exp[bi].build;
            let mut n = 0;
            while bi + n < exp.len() && exp[bi + n].build == b && matches!(exp[bi + n].ev, Event::CData(_)) {
                n += 1;
            }
            let mut joined: Vec<u8> = vec![];
            for c in cdatas.iter().skip(gi).take(n) {
                joined.extend_from_slice(c);
            }
            gi += n;
            let original = exp[bi].plain.clone();
            if let Some(o) = original {
                if joined != o.as_bytes() {
                    out.push(Violation::new("C09", "payload-differs", format!("CDATA content {:?} read back as {:?}", o, String::from_utf8_lossy(&joined))));
                    return;
                }
            }
            bi += n;
        } else {
            bi += 1;
        }
    }
}

trait UnescapeCompat {
    fn unescape_value_compat(&self) -> Result<String, String>;
}
impl UnescapeCompat for quick_xml::events::attributes::Attribute<'_> {
    fn unescape_value_compat(&self) -> Result<String, String> {
        let raw = std::str::from_utf8(&self.value).map_err(|e| e.to_string())?;
        quick_xml::escape::unescape(raw).map(|c| c.into_owned()).map_err(|e| format!("{:?}", e))
    }
}
