mod accessors;
mod common;
mod core;
mod driver;
mod exec;
mod gen;
mod plan;
mod rd;
mod registry;
mod rng;
mod scen_chunk;
mod scen_de;
mod scen_dyn;
mod scen_fault;
mod scen_hist;
mod scen_pipe;
mod source;

use crate::core::Tier;

fn usage() -> ! {
    eprintln!("usage: qxsim check --prop <id> --tier quick|thorough [--seed N] [--workers N] [--scale F] [--evidence FILE] [--part-out FILE] [--part-in FILE] [--findings FILE] [--replays DIR]");
    eprintln!("       qxsim replay <file>");
    eprintln!("       qxsim show --scenario <name> --run N [--seed N]");
    std::process::exit(2)
}

fn main() {
    let args: Vec<String> = std::env::args().collect();
    if args.len() < 2 {
        usage();
    }
    match args[1].as_str() {
        "check" => {
            let mut a = driver::CheckArgs {
                prop: String::new(),
                tier: Tier::Quick,
                seed: std::env::var("VERIF_SEED").ok().and_then(|s| s.parse().ok()).unwrap_or(driver::DEFAULT_SEED),
                workers: std::thread::available_parallelism().map(|n| n.get()).unwrap_or(4),
                scale: 1.0,
                evidence: None,
                part_out: None,
                part_in: None,
                findings: "/verif/known_findings.json".to_string(),
                replay_dir: "/verif/replays".to_string(),
            };
            let mut i = 2;
            while i < args.len() {
                let val = |i: usize| -> String { args.get(i + 1).cloned().unwrap_or_else(|| usage()) };
                match args[i].as_str() {
                    "--prop" => a.prop = val(i),
                    "--tier" => {
                        a.tier = match val(i).as_str() {
                            "quick" => Tier::Quick,
                            "thorough" => Tier::Thorough,
                            _ => usage(),
                        }
                    }
                    "--seed" => a.seed = val(i).parse().unwrap_or_else(|_| usage()),
                    "--workers" => a.workers = val(i).parse().unwrap_or_else(|_| usage()),
                    "--scale" => a.scale = val(i).parse().unwrap_or_else(|_| usage()),
                    "--evidence" => a.evidence = Some(val(i)),
                    "--part-out" => a.part_out = Some(val(i)),
                    "--part-in" => a.part_in = Some(val(i)),
                    "--findings" => a.findings = val(i),
                    "--replays" => a.replay_dir = val(i),
                    _ => usage(),
                }
                i += 2;
            }
            if a.prop.is_empty() {
                usage();
            }
            std::process::exit(driver::run_check(&a));
        }
        "exec-plan" => {
            std::process::exit(driver::exec_plan_from_stdin());
        }
        "replay" => {
            if args.len() < 3 {
                usage();
            }
            crate::core::install_panic_hook();
            std::process::exit(driver::replay(&args[2]));
        }
        "show" => {
            let mut scen = String::new();
            let mut run = 0u64;
            let mut seed = driver::DEFAULT_SEED;
            let mut i = 2;
            while i + 1 < args.len() {
                match args[i].as_str() {
                    "--scenario" => scen = args[i + 1].clone(),
                    "--run" => run = args[i + 1].parse().unwrap_or(0),
                    "--seed" => seed = args[i + 1].parse().unwrap_or(seed),
                    _ => usage(),
                }
                i += 2;
            }
            let s = driver::scenario_by_name(&scen).unwrap_or_else(|| usage());
            let mut rng = rng::Rng::new(rng::run_seed(seed, s.name(), run));
            let plan = s.gen(&mut rng, seed, run, Tier::Quick);
            println!("{}", serde_json::to_string_pretty(&driver::sample_json(&plan)).unwrap());
            crate::core::install_panic_hook();
            let mut st = crate::core::Stats::default();
            for v in s.exec(&plan, &mut st) {
                println!("violation: {} {} — {}", v.prop, v.kind, v.detail);
            }
            println!("executions: {}", st.executions);
        }
        _ => usage(),
    }
}
