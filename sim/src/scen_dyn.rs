//! `dyn` (C07 + C14): the *target type* is part of the Plan.
//!
//! C07 speaks about "any target type" and C14 about "every owned target type"; the `de`
//! scenario samples a fixed family of 40 derive-generated types. Here a `Shape` tree is
//! generated per run and interpreted by one `DeserializeSeed`, which behaves like the
//! code serde's derive would generate for a type of that shape: it asks the
//! deserializer for exactly what such a type asks (`deserialize_struct` with a static
//! field list, `deserialize_enum` with a static variant list, `deserialize_option`,
//! `deserialize_seq`, primitives through serde's own impls, ...) and follows the
//! access protocols strictly (key then value, one variant access per variant). What
//! the visitors are shown is recorded as a trace; the trace is the "value" that
//! `from_str` and `from_reader` must agree on.
//!
//! Field and variant lists must be `&'static`, so they come from two fixed tables
//! (built once from a constant, not from VERIF_SEED); a Shape refers to them by index.

use std::cell::{Cell, RefCell};
use std::fmt;
use std::rc::Rc;
use std::sync::OnceLock;

use serde::de::{DeserializeSeed, Deserializer, EnumAccess, Error as DeError, IgnoredAny, MapAccess, SeqAccess, VariantAccess, Visitor};
use serde::{Deserialize, Serialize};

use crate::common::refill_budget;
use crate::core::{guard, PanicInfo, PanicKind, Scenario, Stats, Tier, Violation};
use crate::gen::*;
use crate::plan::*;
use crate::rng::Rng;
use crate::scen_de::mutate_doc;
use crate::source::{make_sync, new_log, BudgetExceeded};

// ---------------------------------------------------------------------------------
// shapes

#[derive(Clone, Debug, Serialize, Deserialize, Hash, PartialEq, Eq)]
pub enum Shape {
    Any,
    Ignored,
    Ident,
    Bool,
    I8,
    I16,
    I32,
    I64,
    I128,
    U8,
    U16,
    U32,
    U64,
    U128,
    F32,
    F64,
    Char,
    String,
    /// `&'de str`: not an owned type, excluded from C14
    Str,
    ByteBuf,
    /// `&'de [u8]`: not an owned type, excluded from C14
    Bytes,
    Unit,
    UnitStruct(u8),
    Opt(Box<Shape>),
    Newtype(u8, Box<Shape>),
    Seq(Box<Shape>),
    Tuple(Vec<Shape>),
    TupleStruct(u8, Vec<Shape>),
    Map(Box<Shape>, Box<Shape>),
    Struct { name: u8, set: u8, fields: Vec<Shape>, deny_unknown: bool, defaults: bool },
    Enum { name: u8, set: u8, variants: Vec<VShape> },
    /// a hand-written visitor for the inner Struct / Map that returns Ok after `n`
    /// entries without asking for the rest (serde does not require draining a MapAccess)
    Partial(Box<Shape>, u8),
}

#[derive(Clone, Debug, Serialize, Deserialize, Hash, PartialEq, Eq)]
pub enum VShape {
    Unit,
    Newtype(Box<Shape>),
    Tuple(Vec<Shape>),
    Struct { set: u8, fields: Vec<Shape> },
}

impl Shape {
    fn has_borrowed(&self) -> bool {
        match self {
            Shape::Str | Shape::Bytes => true,
            Shape::Opt(s) | Shape::Newtype(_, s) | Shape::Seq(s) | Shape::Partial(s, _) => s.has_borrowed(),
            Shape::Tuple(v) | Shape::TupleStruct(_, v) => v.iter().any(|s| s.has_borrowed()),
            Shape::Map(k, v) => k.has_borrowed() || v.has_borrowed(),
            Shape::Struct { fields, .. } => fields.iter().any(|s| s.has_borrowed()),
            Shape::Enum { variants, .. } => variants.iter().any(|v| match v {
                VShape::Unit => false,
                VShape::Newtype(s) => s.has_borrowed(),
                VShape::Tuple(v) => v.iter().any(|s| s.has_borrowed()),
                VShape::Struct { fields, .. } => fields.iter().any(|s| s.has_borrowed()),
            }),
            _ => false,
        }
    }
    fn kind(&self) -> &'static str {
        match self {
            Shape::Any => "any",
            Shape::Ignored => "ignored",
            Shape::Ident => "identifier",
            Shape::Bool => "bool",
            Shape::I8 | Shape::I16 | Shape::I32 | Shape::I64 | Shape::I128 => "int",
            Shape::U8 | Shape::U16 | Shape::U32 | Shape::U64 | Shape::U128 => "uint",
            Shape::F32 | Shape::F64 => "float",
            Shape::Char => "char",
            Shape::String => "string",
            Shape::Str => "borrowed_str",
            Shape::ByteBuf => "byte_buf",
            Shape::Bytes => "borrowed_bytes",
            Shape::Unit => "unit",
            Shape::UnitStruct(_) => "unit_struct",
            Shape::Opt(_) => "option",
            Shape::Newtype(..) => "newtype_struct",
            Shape::Seq(_) => "seq",
            Shape::Tuple(_) => "tuple",
            Shape::TupleStruct(..) => "tuple_struct",
            Shape::Map(..) => "map",
            Shape::Struct { .. } => "struct",
            Shape::Enum { .. } => "enum",
            Shape::Partial(..) => "visitor_that_stops_early",
        }
    }
    /// every node kind of the tree, for the reach counters
    fn kinds(&self, out: &mut Vec<&'static str>) {
        out.push(self.kind());
        match self {
            Shape::Opt(s) | Shape::Newtype(_, s) | Shape::Seq(s) | Shape::Partial(s, _) => s.kinds(out),
            Shape::Tuple(v) | Shape::TupleStruct(_, v) => v.iter().for_each(|s| s.kinds(out)),
            Shape::Map(k, v) => {
                k.kinds(out);
                v.kinds(out)
            }
            Shape::Struct { fields, .. } => fields.iter().for_each(|s| s.kinds(out)),
            Shape::Enum { variants, .. } => variants.iter().for_each(|v| match v {
                VShape::Unit => out.push("variant_unit"),
                VShape::Newtype(s) => {
                    out.push("variant_newtype");
                    s.kinds(out)
                }
                VShape::Tuple(v) => {
                    out.push("variant_tuple");
                    v.iter().for_each(|s| s.kinds(out))
                }
                VShape::Struct { fields, .. } => {
                    out.push("variant_struct");
                    fields.iter().for_each(|s| s.kinds(out))
                }
            }),
            _ => {}
        }
    }
}

const SNAMES: &[&str] = &["root", "S", "item", "a", "p:a", "T", "x", "b"];
const FIELD_POOL: &[&str] = &[
    "a", "b", "c", "item", "x", "p:a", "n", "ab", "@id", "@k", "@a", "@p:k", "@xml:lang", "@n", "$text", "$value", "@xmlns", "xsi:nil", "@xml", "@x",
];
const VARIANT_POOL: &[&str] = &["a", "b", "c", "item", "x", "p:a", "$text", "A", "ab"];
const N_FSETS: usize = 128;
const N_VSETS: usize = 48;

struct Tables {
    fsets: Vec<&'static [&'static str]>,
    vsets: Vec<&'static [&'static str]>,
}

fn tables() -> &'static Tables {
    static T: OnceLock<Tables> = OnceLock::new();
    T.get_or_init(|| {
        // constant seed: the tables are part of the code, not of the run
        let mut rng = Rng::new(0x51ab_1e5e_7ab1_e500);
        let mut fsets: Vec<&'static [&'static str]> = vec![&[]];
        while fsets.len() < N_FSETS {
            let n = rng.range(1, 5);
            let mut v: Vec<&'static str> = vec![];
            while v.len() < n {
                let f = *rng.pick(FIELD_POOL);
                if v.contains(&f) {
                    continue;
                }
                // both special fields in one struct: rare
                let special = |s: &str| s.starts_with('$');
                if special(f) && v.iter().any(|x| special(x)) && !rng.chance(1, 8) {
                    continue;
                }
                v.push(f);
            }
            fsets.push(Box::leak(v.into_boxed_slice()));
        }
        let mut vsets: Vec<&'static [&'static str]> = vec![];
        while vsets.len() < N_VSETS {
            let n = rng.range(1, 4);
            let mut v: Vec<&'static str> = vec![];
            while v.len() < n {
                let f = *rng.pick(VARIANT_POOL);
                if !v.contains(&f) {
                    v.push(f);
                }
            }
            vsets.push(Box::leak(v.into_boxed_slice()));
        }
        Tables { fsets, vsets }
    })
}

fn fset(i: u8) -> &'static [&'static str] {
    tables().fsets[i as usize % N_FSETS]
}
fn vset(i: u8) -> &'static [&'static str] {
    tables().vsets[i as usize % N_VSETS]
}
fn sname(i: u8) -> &'static str {
    SNAMES[i as usize % SNAMES.len()]
}

// ---------------------------------------------------------------------------------
// the trace

thread_local! {
    static TRACE: RefCell<Vec<String>> = RefCell::new(Vec::new());
    static TICKS: Cell<u64> = Cell::new(0);
    static BUDGET: Cell<u64> = Cell::new(u64::MAX);
    static PROBES: Cell<u64> = Cell::new(0);
    static ROOT: RefCell<Option<Rc<Shape>>> = RefCell::new(None);
}

const PROBE_NAMES: &[&str] = &[
    "visit_map", "visit_seq", "visit_enum", "visit_some", "visit_none", "visit_unit", "visit_newtype", "visit_str", "visit_bytes",
    "visit_bool", "visit_num", "struct_via_seq", "unknown_field_ignored", "duplicate_field", "missing_field", "unknown_variant",
    "unit_variant", "newtype_variant", "tuple_variant", "struct_variant", "field_by_bytes", "seq_nonempty", "map_nonempty", "key_nonstring",
    "stopped_early",
];

fn probe(name: &'static str) {
    let i = PROBE_NAMES.iter().position(|n| *n == name).expect("probe name");
    PROBES.with(|p| p.set(p.get() | 1 << i));
}

fn tr(s: String) {
    let n = TICKS.with(|c| {
        c.set(c.get() + 1);
        c.get()
    });
    if n > BUDGET.with(|b| b.get()) {
        std::panic::panic_any(BudgetExceeded("more visitor callbacks than 8 x input bytes + 256: the deserializer produces values without consuming input"));
    }
    TRACE.with(|t| t.borrow_mut().push(s));
}

fn arm(len: usize) {
    TRACE.with(|t| t.borrow_mut().clear());
    TICKS.with(|c| c.set(0));
    BUDGET.with(|b| b.set(8 * len as u64 + 256));
}

fn take_trace() -> Vec<String> {
    TRACE.with(|t| std::mem::take(&mut *t.borrow_mut()))
}

// ---------------------------------------------------------------------------------
// the interpreter: one DeserializeSeed for all shapes

#[derive(Clone, Copy)]
struct Sh<'a>(&'a Shape);

macro_rules! prim {
    ($d:expr, $t:ty, $label:expr) => {{
        let v = <$t as Deserialize>::deserialize($d)?;
        tr(format!("{} {:?}", $label, v));
        Ok(())
    }};
}

impl<'de, 'a> DeserializeSeed<'de> for Sh<'a> {
    type Value = ();
    fn deserialize<D: Deserializer<'de>>(self, d: D) -> Result<(), D::Error> {
        match self.0 {
            Shape::Any => d.deserialize_any(AnyV),
            Shape::Ignored => {
                IgnoredAny::deserialize(d)?;
                tr("ignored".into());
                Ok(())
            }
            Shape::Ident => d.deserialize_identifier(AnyV),
            Shape::Bool => prim!(d, bool, "bool"),
            Shape::I8 => prim!(d, i8, "i8"),
            Shape::I16 => prim!(d, i16, "i16"),
            Shape::I32 => prim!(d, i32, "i32"),
            Shape::I64 => prim!(d, i64, "i64"),
            Shape::I128 => prim!(d, i128, "i128"),
            Shape::U8 => prim!(d, u8, "u8"),
            Shape::U16 => prim!(d, u16, "u16"),
            Shape::U32 => prim!(d, u32, "u32"),
            Shape::U64 => prim!(d, u64, "u64"),
            Shape::U128 => prim!(d, u128, "u128"),
            Shape::F32 => prim!(d, f32, "f32"),
            Shape::F64 => prim!(d, f64, "f64"),
            Shape::Char => prim!(d, char, "char"),
            Shape::String => prim!(d, String, "string"),
            Shape::Str => prim!(d, &'de str, "str"),
            Shape::Bytes => prim!(d, &'de [u8], "bytes"),
            Shape::ByteBuf => d.deserialize_byte_buf(BytesV),
            Shape::Unit => prim!(d, (), "unit"),
            Shape::UnitStruct(n) => d.deserialize_unit_struct(sname(*n), UnitV),
            Shape::Opt(s) => d.deserialize_option(OptV(s)),
            Shape::Newtype(n, s) => d.deserialize_newtype_struct(sname(*n), NewtypeV(s)),
            Shape::Seq(s) => d.deserialize_seq(SeqV(s)),
            Shape::Tuple(v) => d.deserialize_tuple(v.len(), TupleV(v)),
            Shape::TupleStruct(n, v) => d.deserialize_tuple_struct(sname(*n), v.len(), TupleV(v)),
            Shape::Map(k, v) => d.deserialize_map(MapV(k, v, None)),
            Shape::Struct { name, set, fields, deny_unknown, defaults } => {
                d.deserialize_struct(sname(*name), fset(*set), StructV { names: fset(*set), fields, deny: *deny_unknown, defaults: *defaults, limit: None })
            }
            Shape::Partial(inner, n) => match &**inner {
                Shape::Struct { name, set, fields, deny_unknown, .. } => {
                    d.deserialize_struct(sname(*name), fset(*set), StructV { names: fset(*set), fields, deny: *deny_unknown, defaults: true, limit: Some(*n) })
                }
                Shape::Map(k, v) => d.deserialize_map(MapV(k, v, Some(*n))),
                other => Sh(other).deserialize(d),
            },
            Shape::Enum { name, set, variants } => d.deserialize_enum(sname(*name), vset(*set), EnumV { names: vset(*set), variants }),
        }
    }
}

/// records whatever it is shown; containers are walked with `Any` again (this is what
/// serde's `Content` buffering for untagged / flattened / internally tagged types does)
struct AnyV;
#[derive(Clone, Copy)]
struct AnySeed;
impl<'de> DeserializeSeed<'de> for AnySeed {
    type Value = ();
    fn deserialize<D: Deserializer<'de>>(self, d: D) -> Result<(), D::Error> {
        d.deserialize_any(AnyV)
    }
}

macro_rules! any_num {
    ($($f:ident $t:ty),*) => {$(
        fn $f<E: DeError>(self, v: $t) -> Result<(), E> {
            probe("visit_num");
            tr(format!("num {:?}", v));
            Ok(())
        }
    )*};
}

impl<'de> Visitor<'de> for AnyV {
    type Value = ();
    fn expecting(&self, f: &mut fmt::Formatter) -> fmt::Result {
        f.write_str("anything")
    }
    fn visit_bool<E: DeError>(self, v: bool) -> Result<(), E> {
        probe("visit_bool");
        tr(format!("bool {}", v));
        Ok(())
    }
    any_num!(visit_i8 i8, visit_i16 i16, visit_i32 i32, visit_i64 i64, visit_i128 i128, visit_u8 u8, visit_u16 u16, visit_u32 u32, visit_u64 u64, visit_u128 u128, visit_f32 f32, visit_f64 f64);
    fn visit_char<E: DeError>(self, v: char) -> Result<(), E> {
        tr(format!("char {:?}", v));
        Ok(())
    }
    fn visit_str<E: DeError>(self, v: &str) -> Result<(), E> {
        probe("visit_str");
        tr(format!("str {:?}", v));
        Ok(())
    }
    fn visit_bytes<E: DeError>(self, v: &[u8]) -> Result<(), E> {
        probe("visit_bytes");
        tr(format!("bytes {:?}", v));
        Ok(())
    }
    fn visit_none<E: DeError>(self) -> Result<(), E> {
        probe("visit_none");
        tr("none".into());
        Ok(())
    }
    fn visit_some<D: Deserializer<'de>>(self, d: D) -> Result<(), D::Error> {
        probe("visit_some");
        tr("some".into());
        d.deserialize_any(AnyV)
    }
    fn visit_unit<E: DeError>(self) -> Result<(), E> {
        probe("visit_unit");
        tr("unit".into());
        Ok(())
    }
    fn visit_newtype_struct<D: Deserializer<'de>>(self, d: D) -> Result<(), D::Error> {
        probe("visit_newtype");
        tr("newtype".into());
        d.deserialize_any(AnyV)
    }
    fn visit_seq<A: SeqAccess<'de>>(self, mut a: A) -> Result<(), A::Error> {
        probe("visit_seq");
        tr("seq[".into());
        let _ = a.size_hint();
        while a.next_element_seed(AnySeed)?.is_some() {
            probe("seq_nonempty");
        }
        tr("]".into());
        Ok(())
    }
    fn visit_map<A: MapAccess<'de>>(self, mut m: A) -> Result<(), A::Error> {
        probe("visit_map");
        tr("map{".into());
        let _ = m.size_hint();
        while m.next_key_seed(AnySeed)?.is_some() {
            probe("map_nonempty");
            m.next_value_seed(AnySeed)?;
        }
        tr("}".into());
        Ok(())
    }
    fn visit_enum<A: EnumAccess<'de>>(self, data: A) -> Result<(), A::Error> {
        probe("visit_enum");
        tr("enum".into());
        let ((), va) = data.variant_seed(AnySeed)?;
        va.newtype_variant_seed(AnySeed)
    }
}

struct BytesV;
impl<'de> Visitor<'de> for BytesV {
    type Value = ();
    fn expecting(&self, f: &mut fmt::Formatter) -> fmt::Result {
        f.write_str("byte buffer")
    }
    fn visit_bytes<E: DeError>(self, v: &[u8]) -> Result<(), E> {
        probe("visit_bytes");
        tr(format!("bytebuf {:?}", v));
        Ok(())
    }
    fn visit_str<E: DeError>(self, v: &str) -> Result<(), E> {
        tr(format!("bytebuf {:?}", v.as_bytes()));
        Ok(())
    }
    fn visit_seq<A: SeqAccess<'de>>(self, mut a: A) -> Result<(), A::Error> {
        // serde_bytes::ByteBuf accepts a sequence of u8 too
        tr("bytebuf[".into());
        while let Some(b) = a.next_element::<u8>()? {
            tr(format!("{}", b));
        }
        tr("]".into());
        Ok(())
    }
}

struct UnitV;
impl<'de> Visitor<'de> for UnitV {
    type Value = ();
    fn expecting(&self, f: &mut fmt::Formatter) -> fmt::Result {
        f.write_str("unit struct")
    }
    fn visit_unit<E: DeError>(self) -> Result<(), E> {
        probe("visit_unit");
        tr("unit_struct".into());
        Ok(())
    }
}

struct OptV<'a>(&'a Shape);
impl<'de, 'a> Visitor<'de> for OptV<'a> {
    type Value = ();
    fn expecting(&self, f: &mut fmt::Formatter) -> fmt::Result {
        f.write_str("option")
    }
    fn visit_none<E: DeError>(self) -> Result<(), E> {
        probe("visit_none");
        tr("none".into());
        Ok(())
    }
    fn visit_unit<E: DeError>(self) -> Result<(), E> {
        probe("visit_none");
        tr("none".into());
        Ok(())
    }
    fn visit_some<D: Deserializer<'de>>(self, d: D) -> Result<(), D::Error> {
        probe("visit_some");
        tr("some".into());
        Sh(self.0).deserialize(d)
    }
}

struct NewtypeV<'a>(&'a Shape);
impl<'de, 'a> Visitor<'de> for NewtypeV<'a> {
    type Value = ();
    fn expecting(&self, f: &mut fmt::Formatter) -> fmt::Result {
        f.write_str("newtype struct")
    }
    fn visit_newtype_struct<D: Deserializer<'de>>(self, d: D) -> Result<(), D::Error> {
        probe("visit_newtype");
        tr("newtype".into());
        Sh(self.0).deserialize(d)
    }
    fn visit_seq<A: SeqAccess<'de>>(self, mut a: A) -> Result<(), A::Error> {
        tr("newtype[".into());
        if a.next_element_seed(Sh(self.0))?.is_none() {
            return Err(A::Error::invalid_length(0, &"newtype struct with 1 element"));
        }
        tr("]".into());
        Ok(())
    }
}

/// `Vec<T>`: drains the sequence
struct SeqV<'a>(&'a Shape);
impl<'de, 'a> Visitor<'de> for SeqV<'a> {
    type Value = ();
    fn expecting(&self, f: &mut fmt::Formatter) -> fmt::Result {
        f.write_str("sequence")
    }
    fn visit_seq<A: SeqAccess<'de>>(self, mut a: A) -> Result<(), A::Error> {
        probe("visit_seq");
        tr("seq[".into());
        let _ = a.size_hint();
        while a.next_element_seed(Sh(self.0))?.is_some() {
            probe("seq_nonempty");
        }
        tr("]".into());
        Ok(())
    }
}

/// tuples and tuple structs: exactly n elements are asked for, the rest is left alone
struct TupleV<'a>(&'a [Shape]);
impl<'de, 'a> Visitor<'de> for TupleV<'a> {
    type Value = ();
    fn expecting(&self, f: &mut fmt::Formatter) -> fmt::Result {
        write!(f, "tuple of {}", self.0.len())
    }
    fn visit_seq<A: SeqAccess<'de>>(self, mut a: A) -> Result<(), A::Error> {
        probe("visit_seq");
        tr("tuple(".into());
        for (i, s) in self.0.iter().enumerate() {
            if a.next_element_seed(Sh(s))?.is_none() {
                return Err(A::Error::invalid_length(i, &self));
            }
            probe("seq_nonempty");
        }
        tr(")".into());
        Ok(())
    }
}

struct MapV<'a>(&'a Shape, &'a Shape, Option<u8>);
impl<'de, 'a> Visitor<'de> for MapV<'a> {
    type Value = ();
    fn expecting(&self, f: &mut fmt::Formatter) -> fmt::Result {
        f.write_str("map")
    }
    fn visit_map<A: MapAccess<'de>>(self, mut m: A) -> Result<(), A::Error> {
        probe("visit_map");
        tr("map{".into());
        let _ = m.size_hint();
        if !matches!(self.0, Shape::String | Shape::Str | Shape::Any | Shape::Ident) {
            probe("key_nonstring");
        }
        let mut n = 0u8;
        loop {
            if self.2 == Some(n) {
                probe("stopped_early");
                tr("…}".into());
                return Ok(());
            }
            if m.next_key_seed(Sh(self.0))?.is_none() {
                break;
            }
            probe("map_nonempty");
            m.next_value_seed(Sh(self.1))?;
            n = n.saturating_add(1);
        }
        tr("}".into());
        Ok(())
    }
}

/// what derive generates for the `__Field` identifier of a struct
struct FieldSeed {
    names: &'static [&'static str],
    deny: bool,
}
impl<'de> DeserializeSeed<'de> for FieldSeed {
    type Value = Option<usize>;
    fn deserialize<D: Deserializer<'de>>(self, d: D) -> Result<Option<usize>, D::Error> {
        d.deserialize_identifier(self)
    }
}
impl<'de> Visitor<'de> for FieldSeed {
    type Value = Option<usize>;
    fn expecting(&self, f: &mut fmt::Formatter) -> fmt::Result {
        f.write_str("field identifier")
    }
    fn visit_u64<E: DeError>(self, v: u64) -> Result<Option<usize>, E> {
        tr(format!("field #{}", v));
        Ok(if (v as usize) < self.names.len() { Some(v as usize) } else { None })
    }
    fn visit_str<E: DeError>(self, v: &str) -> Result<Option<usize>, E> {
        tr(format!("field {:?}", v));
        match self.names.iter().position(|n| *n == v) {
            Some(i) => Ok(Some(i)),
            None if self.deny => Err(E::unknown_field(v, self.names)),
            None => Ok(None),
        }
    }
    fn visit_bytes<E: DeError>(self, v: &[u8]) -> Result<Option<usize>, E> {
        probe("field_by_bytes");
        tr(format!("field {:?}", String::from_utf8_lossy(v)));
        match self.names.iter().position(|n| n.as_bytes() == v) {
            Some(i) => Ok(Some(i)),
            None if self.deny => Err(E::unknown_field(&String::from_utf8_lossy(v), self.names)),
            None => Ok(None),
        }
    }
}

struct StructV<'a> {
    names: &'static [&'static str],
    fields: &'a [Shape],
    deny: bool,
    defaults: bool,
    /// hand-written visitor: return Ok after this many entries
    limit: Option<u8>,
}
impl<'a> StructV<'a> {
    fn shape(&self, i: usize) -> &'a Shape {
        // a replay file edited by the shrinker may carry fewer shapes than names
        self.fields.get(i).unwrap_or(&Shape::Ignored)
    }
}
impl<'de, 'a> Visitor<'de> for StructV<'a> {
    type Value = ();
    fn expecting(&self, f: &mut fmt::Formatter) -> fmt::Result {
        f.write_str("struct")
    }
    fn visit_seq<A: SeqAccess<'de>>(self, mut a: A) -> Result<(), A::Error> {
        probe("struct_via_seq");
        tr("struct(".into());
        for i in 0..self.names.len() {
            if a.next_element_seed(Sh(self.shape(i)))?.is_none() {
                return Err(A::Error::invalid_length(i, &"struct"));
            }
        }
        tr(")".into());
        Ok(())
    }
    fn visit_map<A: MapAccess<'de>>(self, mut m: A) -> Result<(), A::Error> {
        probe("visit_map");
        tr("struct{".into());
        let mut seen = vec![false; self.names.len()];
        let mut n = 0u8;
        loop {
            if self.limit == Some(n) {
                probe("stopped_early");
                tr("…}".into());
                return Ok(());
            }
            n = n.saturating_add(1);
            let k = match m.next_key_seed(FieldSeed { names: self.names, deny: self.deny })? {
                Some(k) => k,
                None => break,
            };
            match k {
                Some(i) => {
                    if seen[i] {
                        probe("duplicate_field");
                        return Err(A::Error::duplicate_field(self.names[i]));
                    }
                    seen[i] = true;
                    m.next_value_seed(Sh(self.shape(i)))?;
                }
                None => {
                    probe("unknown_field_ignored");
                    m.next_value::<IgnoredAny>()?;
                }
            }
        }
        for (i, s) in seen.iter().enumerate() {
            if !*s {
                if self.defaults || matches!(self.shape(i), Shape::Opt(_)) {
                    tr(format!("default {}", self.names[i]));
                } else {
                    probe("missing_field");
                    return Err(A::Error::missing_field(self.names[i]));
                }
            }
        }
        tr("}".into());
        Ok(())
    }
}

struct VariantSeed {
    names: &'static [&'static str],
}
impl<'de> DeserializeSeed<'de> for VariantSeed {
    type Value = usize;
    fn deserialize<D: Deserializer<'de>>(self, d: D) -> Result<usize, D::Error> {
        d.deserialize_identifier(self)
    }
}
impl<'de> Visitor<'de> for VariantSeed {
    type Value = usize;
    fn expecting(&self, f: &mut fmt::Formatter) -> fmt::Result {
        f.write_str("variant identifier")
    }
    fn visit_u64<E: DeError>(self, v: u64) -> Result<usize, E> {
        tr(format!("variant #{}", v));
        if (v as usize) < self.names.len() {
            Ok(v as usize)
        } else {
            Err(E::invalid_value(serde::de::Unexpected::Unsigned(v), &"variant index"))
        }
    }
    fn visit_str<E: DeError>(self, v: &str) -> Result<usize, E> {
        tr(format!("variant {:?}", v));
        self.names.iter().position(|n| *n == v).ok_or_else(|| {
            probe("unknown_variant");
            E::unknown_variant(v, self.names)
        })
    }
    fn visit_bytes<E: DeError>(self, v: &[u8]) -> Result<usize, E> {
        tr(format!("variant {:?}", String::from_utf8_lossy(v)));
        self.names.iter().position(|n| n.as_bytes() == v).ok_or_else(|| {
            probe("unknown_variant");
            E::unknown_variant(&String::from_utf8_lossy(v), self.names)
        })
    }
}

struct EnumV<'a> {
    names: &'static [&'static str],
    variants: &'a [VShape],
}
impl<'de, 'a> Visitor<'de> for EnumV<'a> {
    type Value = ();
    fn expecting(&self, f: &mut fmt::Formatter) -> fmt::Result {
        f.write_str("enum")
    }
    fn visit_enum<A: EnumAccess<'de>>(self, data: A) -> Result<(), A::Error> {
        probe("visit_enum");
        tr("enum".into());
        let (idx, va) = data.variant_seed(VariantSeed { names: self.names })?;
        match self.variants.get(idx).unwrap_or(&VShape::Unit) {
            VShape::Unit => {
                probe("unit_variant");
                va.unit_variant()
            }
            VShape::Newtype(s) => {
                probe("newtype_variant");
                va.newtype_variant_seed(Sh(s))
            }
            VShape::Tuple(v) => {
                probe("tuple_variant");
                va.tuple_variant(v.len(), TupleV(v))
            }
            VShape::Struct { set, fields } => {
                probe("struct_variant");
                va.struct_variant(fset(*set), StructV { names: fset(*set), fields, deny: false, defaults: true, limit: None })
            }
        }
    }
}

/// the type handed to `from_str::<T>` / `from_reader::<_, T>`: interprets the shape
/// installed in the thread-local ROOT
struct Dyn;
impl<'de> Deserialize<'de> for Dyn {
    fn deserialize<D: Deserializer<'de>>(d: D) -> Result<Dyn, D::Error> {
        let root = ROOT.with(|r| r.borrow().clone()).expect("ROOT shape installed");
        Sh(&root).deserialize(d).map(|()| Dyn)
    }
}

// ---------------------------------------------------------------------------------
// generators: a shape, and a document that fits it (mostly)

fn gen_leaf(rng: &mut Rng) -> Shape {
    match rng.below(40) {
        0..=9 => Shape::String,
        10..=12 => Shape::U8,
        13 => Shape::I8,
        14 => Shape::I16,
        15..=16 => Shape::I32,
        17 => Shape::I64,
        18 => Shape::I128,
        19 => Shape::U16,
        20 => Shape::U32,
        21 => Shape::U64,
        22 => Shape::U128,
        23 => Shape::F32,
        24 => Shape::F64,
        25..=26 => Shape::Bool,
        27 => Shape::Char,
        28..=29 => Shape::Unit,
        30 => Shape::UnitStruct(rng.below(8) as u8),
        31..=33 => Shape::Any,
        34..=35 => Shape::Ignored,
        36 => Shape::ByteBuf,
        37 => Shape::Ident,
        38 => {
            if rng.chance(1, 2) {
                Shape::Str
            } else {
                Shape::String
            }
        }
        _ => {
            if rng.chance(1, 2) {
                Shape::Bytes
            } else {
                Shape::ByteBuf
            }
        }
    }
}

/// shape of a value that lives in an attribute or in `$text`: simple types and lists of them
fn gen_simple(rng: &mut Rng, depth: usize) -> Shape {
    match rng.below(12) {
        0..=5 => gen_leaf(rng),
        6 => Shape::Opt(Box::new(gen_leaf(rng))),
        7..=8 => Shape::Seq(Box::new(gen_leaf(rng))),
        9 => {
            let set = rng.below(N_VSETS) as u8;
            Shape::Enum { name: rng.below(8) as u8, set, variants: vset(set).iter().map(|_| VShape::Unit).collect() }
        }
        10 => Shape::Newtype(rng.below(8) as u8, Box::new(gen_leaf(rng))),
        _ => gen_shape(rng, depth + 1),
    }
}

fn gen_fields(rng: &mut Rng, set: u8, depth: usize) -> Vec<Shape> {
    fset(set)
        .iter()
        .map(|n| {
            if n.starts_with('@') || *n == "$text" {
                gen_simple(rng, depth)
            } else if *n == "$value" {
                match rng.below(8) {
                    0..=2 => Shape::Seq(Box::new(gen_enum(rng, depth + 1))),
                    3 => gen_enum(rng, depth + 1),
                    4 => Shape::Seq(Box::new(gen_leaf(rng))),
                    5 => Shape::Opt(Box::new(gen_shape(rng, depth + 1))),
                    _ => gen_shape(rng, depth + 1),
                }
            } else {
                gen_shape(rng, depth + 1)
            }
        })
        .collect()
}

fn gen_enum(rng: &mut Rng, depth: usize) -> Shape {
    let set = rng.below(N_VSETS) as u8;
    let variants = vset(set)
        .iter()
        .map(|_| match rng.below(8) {
            0..=2 => VShape::Unit,
            3..=5 => VShape::Newtype(Box::new(gen_shape(rng, depth + 1))),
            6 => VShape::Tuple((0..rng.range(1, 3)).map(|_| gen_shape(rng, depth + 1)).collect()),
            _ => {
                let fs = rng.below(N_FSETS) as u8;
                VShape::Struct { set: fs, fields: gen_fields(rng, fs, depth + 1) }
            }
        })
        .collect();
    Shape::Enum { name: rng.below(8) as u8, set, variants }
}

fn gen_struct(rng: &mut Rng, depth: usize) -> Shape {
    let set = rng.below(N_FSETS) as u8;
    Shape::Struct { name: rng.below(8) as u8, set, fields: gen_fields(rng, set, depth), deny_unknown: rng.chance(1, 6), defaults: rng.chance(3, 4) }
}

/// "list-heavy" types: only structs over plain element names, lists and strings, nested up
/// to list -> struct -> struct -> list -> struct; the overlapped-lists look-ahead and replay
/// machinery is only exercised in depth by such types
fn gen_struct_lists(rng: &mut Rng, depth: usize) -> Shape {
    let plain: Vec<u8> = (0..N_FSETS as u8)
        .filter(|&i| fset(i).len() >= 2 && fset(i).iter().all(|n| !n.starts_with('@') && !n.starts_with('$') && *n != "xsi:nil"))
        .collect();
    let set = *rng.pick(&plain);
    let fields = fset(set)
        .iter()
        .map(|_| match rng.below(10) {
            0..=3 => Shape::String,
            4..=5 => Shape::Seq(Box::new(Shape::String)),
            6..=7 if depth < 4 => Shape::Seq(Box::new(gen_struct_lists(rng, depth + 1))),
            8..=9 if depth < 4 => gen_struct_lists(rng, depth + 1),
            _ => Shape::String,
        })
        .collect();
    Shape::Struct { name: rng.below(8) as u8, set, fields, deny_unknown: false, defaults: true }
}

pub fn gen_shape(rng: &mut Rng, depth: usize) -> Shape {
    // containers get rarer with depth; list -> struct -> struct -> list chains (depth 5) occur
    if depth >= 6 || rng.chance(2 + depth, 8) {
        return gen_leaf(rng);
    }
    if PARTIAL_VISITORS && rng.chance(1, 16) {
        let inner = if rng.chance(2, 3) { gen_struct(rng, depth) } else { Shape::Map(Box::new(Shape::String), Box::new(gen_shape(rng, depth + 1))) };
        return Shape::Partial(Box::new(inner), rng.below(3) as u8);
    }
    match rng.below(16) {
        0..=4 => gen_struct(rng, depth),
        5..=7 => Shape::Seq(Box::new(gen_shape(rng, depth + 1))),
        8..=9 => Shape::Opt(Box::new(gen_shape(rng, depth + 1))),
        10..=11 => gen_enum(rng, depth),
        12 => {
            let k = if rng.chance(3, 4) { Shape::String } else { gen_leaf(rng) };
            Shape::Map(Box::new(k), Box::new(gen_shape(rng, depth + 1)))
        }
        13 => Shape::Tuple((0..rng.range(1, 3)).map(|_| gen_shape(rng, depth + 1)).collect()),
        14 => Shape::Newtype(rng.below(8) as u8, Box::new(gen_shape(rng, depth + 1))),
        _ => Shape::TupleStruct(rng.below(8) as u8, (0..rng.range(1, 3)).map(|_| gen_shape(rng, depth + 1)).collect()),
    }
}

/// generate hand-written visitors that stop before a map is drained?
const PARTIAL_VISITORS: bool = true;

const WORDS: &[&str] = &["x", "abc", "a b", " x ", "&amp;", "&lt;b&gt;", "\u{e9}", "&#65;", "true", "12", "", "a", "item", "$text", "&e;", "x&p;y", "&nbsp;", "&empty;"];
const INTS: &[&str] = &["0", "1", "42", "-7", "255", "256", "-129", "65536", "4294967296", "18446744073709551616", "+5", "1e3", " 12", "0x10", "-0"];
const FLOATS: &[&str] = &["1.5", "-0", "NaN", "inf", "1e400", "3", "-2.5e-3", ".5", "1."];
const BOOLS: &[&str] = &["true", "false", "1", "0", "True", "yes", "t"];

/// one item of character data fitting a leaf shape (may contain no blank)
fn lit(rng: &mut Rng, s: &Shape) -> String {
    if rng.chance(1, 20) {
        return (*rng.pick(WORDS)).to_string();
    }
    match s {
        Shape::Bool => (*rng.pick(BOOLS)).to_string(),
        Shape::I8 | Shape::I16 | Shape::I32 | Shape::I64 | Shape::I128 | Shape::U8 | Shape::U16 | Shape::U32 | Shape::U64 | Shape::U128 => {
            if rng.chance(3, 4) {
                (*rng.pick(&["0", "1", "7", "42", "100"])).to_string()
            } else {
                (*rng.pick(INTS)).to_string()
            }
        }
        Shape::F32 | Shape::F64 => (*rng.pick(FLOATS)).to_string(),
        Shape::Char => (*rng.pick(&["x", "\u{e9}", "&lt;", "ab", " "])).to_string(),
        Shape::Unit | Shape::UnitStruct(_) => String::new(),
        Shape::Opt(s) | Shape::Newtype(_, s) | Shape::Partial(s, _) => lit(rng, s),
        Shape::Enum { set, .. } => (*rng.pick(vset(*set))).to_string(),
        _ => (*rng.pick(WORDS)).to_string(),
    }
}

/// character data for an attribute value or a `$text` field
fn simple_text(rng: &mut Rng, s: &Shape) -> String {
    match s {
        Shape::Seq(e) => {
            let n = rng.below(4);
            (0..n).map(|_| lit(rng, e).replace(' ', "")).collect::<Vec<_>>().join(if rng.chance(1, 8) { "  " } else { " " })
        }
        Shape::Tuple(v) | Shape::TupleStruct(_, v) => v.iter().map(|e| lit(rng, e).replace(' ', "")).collect::<Vec<_>>().join(" "),
        Shape::Opt(e) => {
            if rng.chance(1, 4) {
                String::new()
            } else {
                simple_text(rng, e)
            }
        }
        _ => lit(rng, s),
    }
}

fn attr_escape(v: &str) -> String {
    v.replace('"', "&quot;").replace('<', "&lt;")
}

fn text_piece(rng: &mut Rng, t: &str) -> String {
    // the same character data written as text, as CDATA, or as a mixture
    match rng.below(10) {
        0 if !t.contains("]]>") && !t.contains('&') => format!("<![CDATA[{}]]>", t),
        1 if !t.contains("]]>") && !t.contains('&') && t.len() >= 2 && t.is_char_boundary(1) => format!("{}<![CDATA[{}]]>", &t[..1], &t[1..]),
        2 => format!("{}<!--c-->", t),
        _ => t.to_string(),
    }
}

fn any_name(rng: &mut Rng) -> &'static str {
    *rng.pick(&["a", "b", "c", "item", "x", "p:a", "n", "ab", "zz"])
}

struct DocGen<'r> {
    rng: &'r mut Rng,
    out: String,
    budget: usize,
    /// probability (of 6) that the children of a struct element are shuffled
    shuffle_of_6: usize,
}

impl<'r> DocGen<'r> {
    fn open(&mut self, tag: &str, attrs: &[(String, String)]) {
        self.out.push('<');
        self.out.push_str(tag);
        for (k, v) in attrs {
            let q = if self.rng.chance(1, 5) && !v.contains('\'') { '\'' } else { '"' };
            self.out.push_str(&format!(" {}={}{}{}", k, q, attr_escape(v), q));
        }
    }

    /// what `f` appends, as a string of its own
    fn render(&mut self, f: impl FnOnce(&mut Self)) -> String {
        let saved = std::mem::take(&mut self.out);
        f(self);
        std::mem::replace(&mut self.out, saved)
    }

    /// zero or more elements named `tag` that stand for a value of shape `s`
    fn elem(&mut self, s: &Shape, tag: &str, depth: usize) {
        if self.budget == 0 || depth > 8 {
            return;
        }
        self.budget -= 1;
        match s {
            Shape::Opt(inner) => match self.rng.below(16) {
                0..=3 => {}
                4..=5 => self.out.push_str(&format!("<{}/>", tag)),
                6 => self.out.push_str(&format!("<{} xsi:nil=\"true\"/>", tag)),
                7 => self.out.push_str(&format!("<{} xmlns:xsi=\"http://www.w3.org/2001/XMLSchema-instance\" xsi:nil=\"true\">x</{}>", tag, tag)),
                _ => self.elem(inner, tag, depth + 1),
            },
            Shape::Newtype(_, inner) | Shape::Partial(inner, _) => self.elem(inner, tag, depth + 1),
            Shape::Seq(inner) => {
                let n = self.rng.below(4);
                for _ in 0..n {
                    self.elem(inner, tag, depth + 1);
                    if self.rng.chance(1, 10) {
                        // an element of another name in between: overlapped lists
                        let other = any_name(self.rng);
                        self.out.push_str(&format!("<{}/>", other));
                    }
                }
            }
            Shape::Tuple(v) | Shape::TupleStruct(_, v) => {
                for e in v {
                    self.elem(e, tag, depth + 1);
                }
                if self.rng.chance(1, 8) {
                    self.out.push_str(&format!("<{}>extra</{}>", tag, tag));
                }
            }
            Shape::Map(_, v) => {
                self.open(tag, &[]);
                self.out.push('>');
                let n = self.rng.below(4);
                for _ in 0..n {
                    let k = any_name(self.rng);
                    self.elem(v, k, depth + 1);
                }
                self.out.push_str(&format!("</{}>", tag));
            }
            Shape::Struct { set, fields, .. } => self.struct_elem(fset(*set), fields, tag, depth),
            Shape::Enum { set, variants, .. } => {
                // as the value of an element: externally tagged inside it
                self.open(tag, &[]);
                self.out.push('>');
                self.variant(vset(*set), variants, depth + 1);
                self.out.push_str(&format!("</{}>", tag));
            }
            Shape::Any | Shape::Ignored | Shape::Ident => match self.rng.below(4) {
                0 => self.out.push_str(&format!("<{}/>", tag)),
                1 => {
                    let w = *self.rng.pick(WORDS);
                    self.out.push_str(&format!("<{}>{}</{}>", tag, w, tag))
                }
                2 => {
                    let inner = any_name(self.rng);
                    self.out.push_str(&format!("<{} k=\"v\"><{}>1</{}>t</{}>", tag, inner, inner, tag))
                }
                _ => {
                    let inner = any_name(self.rng);
                    self.out.push_str(&format!("<{}><{}/><{}/></{}>", tag, inner, inner, tag))
                }
            },
            Shape::Unit | Shape::UnitStruct(_) => {
                if self.rng.chance(1, 2) {
                    self.out.push_str(&format!("<{}/>", tag))
                } else {
                    self.out.push_str(&format!("<{}></{}>", tag, tag))
                }
            }
            leaf => {
                let t = lit(self.rng, leaf);
                let t = text_piece(self.rng, &t);
                if t.is_empty() && self.rng.chance(1, 2) {
                    self.out.push_str(&format!("<{}/>", tag));
                } else {
                    self.out.push_str(&format!("<{}>{}</{}>", tag, t, tag));
                }
            }
        }
    }

    fn struct_elem(&mut self, names: &[&str], fields: &[Shape], tag: &str, depth: usize) {
        let mut attrs = vec![];
        for (n, s) in names.iter().zip(fields) {
            if let Some(a) = n.strip_prefix('@') {
                if self.rng.chance(1, 6) {
                    continue;
                }
                attrs.push((a.to_string(), simple_text(self.rng, s)));
                if self.rng.chance(1, 30) {
                    attrs.push((a.to_string(), "dup".to_string()));
                }
            }
        }
        if self.rng.chance(1, 8) {
            attrs.push(((*self.rng.pick(&["zz", "xmlns:p", "xsi:nil", "xmlns", "xml", "xml:space", "x", "xm", "xmlnsx"])).to_string(), (*self.rng.pick(&["u", "true", "false", ""])).to_string()));
        }
        self.open(tag, &attrs);
        let mut order: Vec<usize> = (0..names.len().min(fields.len())).filter(|i| !names[*i].starts_with('@')).collect();
        if order.is_empty() && self.rng.chance(1, 2) {
            self.out.push_str("/>");
            return;
        }
        self.out.push('>');
        // fields in random order
        for i in (1..order.len()).rev() {
            let j = self.rng.below(i + 1);
            order.swap(i, j);
        }
        // every child is rendered as its own piece; the items of a list are separate pieces
        let mut pieces: Vec<String> = vec![];
        for i in order {
            if self.rng.chance(1, 8) {
                continue;
            }
            match names[i] {
                "$text" => {
                    let t = simple_text(self.rng, &fields[i]);
                    pieces.push(text_piece(self.rng, &t));
                }
                "$value" => {
                    let p = self.render(|g| g.value(&fields[i], depth + 1));
                    pieces.push(p);
                }
                n => match &fields[i] {
                    Shape::Seq(inner) => {
                        for _ in 0..self.rng.below(4) {
                            let p = self.render(|g| g.elem(inner, n, depth + 1));
                            pieces.push(p);
                        }
                    }
                    other => {
                        let p = self.render(|g| g.elem(other, n, depth + 1));
                        pieces.push(p);
                    }
                },
            }
            if self.rng.chance(1, 10) {
                let other = any_name(self.rng);
                pieces.push(format!("<{}>u</{}>", other, other));
            }
            if self.rng.chance(1, 12) {
                pieces.push((*self.rng.pick(&["stray", " ", "<!--c-->", "<?pi?>", "<![CDATA[cd]]>"])).to_string());
            }
        }
        if self.rng.chance(self.shuffle_of_6, 6) {
            // overlapped lists: the items of one field are interleaved with the other fields
            for i in (1..pieces.len()).rev() {
                let j = self.rng.below(i + 1);
                pieces.swap(i, j);
            }
        }
        for p in pieces {
            self.out.push_str(&p);
        }
        self.out.push_str(&format!("</{}>", tag));
    }

    /// content of a `$value` field
    fn value(&mut self, s: &Shape, depth: usize) {
        if self.budget == 0 || depth > 8 {
            return;
        }
        self.budget -= 1;
        match s {
            Shape::Seq(inner) => {
                let n = self.rng.below(4);
                for _ in 0..n {
                    self.value(inner, depth + 1);
                }
            }
            Shape::Opt(inner) | Shape::Newtype(_, inner) | Shape::Partial(inner, _) => {
                if !self.rng.chance(1, 4) {
                    self.value(inner, depth + 1)
                }
            }
            Shape::Tuple(v) | Shape::TupleStruct(_, v) => {
                for e in v {
                    self.value(e, depth + 1)
                }
            }
            Shape::Enum { set, variants, .. } => self.variant(vset(*set), variants, depth),
            Shape::Struct { .. } | Shape::Map(..) | Shape::Any | Shape::Ignored | Shape::Unit | Shape::UnitStruct(_) => {
                let tag = any_name(self.rng);
                self.elem(s, tag, depth + 1)
            }
            leaf => {
                if self.rng.chance(1, 3) {
                    let tag = any_name(self.rng);
                    self.elem(leaf, tag, depth + 1)
                } else {
                    let t = lit(self.rng, leaf);
                    let t = text_piece(self.rng, &t);
                    self.out.push_str(&t)
                }
            }
        }
    }

    /// one variant of an enum, externally tagged: the element name (or text) selects it
    fn variant(&mut self, names: &[&str], variants: &[VShape], depth: usize) {
        let i = self.rng.below(names.len().min(variants.len()).max(1));
        let name = if self.rng.chance(1, 12) { any_name(self.rng) } else { names.get(i).copied().unwrap_or("a") };
        let v = variants.get(i).unwrap_or(&VShape::Unit);
        if name == "$text" {
            let t = match v {
                VShape::Newtype(s) => simple_text(self.rng, s),
                VShape::Tuple(v) => v.iter().map(|e| lit(self.rng, e).replace(' ', "")).collect::<Vec<_>>().join(" "),
                _ => (*self.rng.pick(WORDS)).to_string(),
            };
            let t = text_piece(self.rng, &t);
            self.out.push_str(&t);
            return;
        }
        match v {
            VShape::Unit => {
                if self.rng.chance(1, 6) {
                    self.out.push_str(&format!("<{}>x</{}>", name, name))
                } else {
                    self.out.push_str(&format!("<{}/>", name))
                }
            }
            VShape::Newtype(s) => match &**s {
                // a newtype variant is transparent: the variant's element *is* the value
                Shape::Seq(_) | Shape::Tuple(_) | Shape::TupleStruct(..) | Shape::Opt(_) => self.elem(s, name, depth + 1),
                Shape::Enum { .. } if self.rng.chance(1, 2) => self.elem(s, name, depth + 1),
                _ => self.elem(s, name, depth + 1),
            },
            VShape::Tuple(v) => {
                for e in v {
                    self.elem(e, name, depth + 1)
                }
            }
            VShape::Struct { set, fields } => self.struct_elem(fset(*set), fields, name, depth + 1),
        }
    }
}

pub fn gen_doc_for(rng: &mut Rng, shape: &Shape, shuffle_of_6: usize) -> String {
    let mut g = DocGen { rng, out: String::new(), budget: 90, shuffle_of_6 };
    if g.rng.chance(1, 6) {
        g.out.push_str(*g.rng.pick(&["<?xml version=\"1.0\"?>", "<?xml version=\"1.0\" encoding=\"UTF-8\"?>\n", "<!DOCTYPE r>", "<!DOCTYPE r SYSTEM \"r.dtd\">", "<!DOCTYPE r [<!ENTITY e \"v\">]>", "<!-- c -->", "\n", "\u{feff}"]));
    }
    match shape {
        // the root element's name selects the variant
        Shape::Enum { set, variants, .. } => g.variant(vset(*set), variants, 0),
        Shape::Struct { name, .. } => {
            let tag = sname(*name);
            g.elem(shape, tag, 0)
        }
        Shape::Seq(_) | Shape::Tuple(_) | Shape::TupleStruct(..) if g.rng.chance(1, 2) => {
            // a top-level sequence: several root-level elements
            g.elem(shape, "item", 0)
        }
        _ => {
            g.elem(shape, "root", 0);
            if g.out.is_empty() {
                g.out.push_str("<root/>");
            }
        }
    }
    if g.rng.chance(1, 10) {
        g.out.push_str(*g.rng.pick(&["\n", "<!-- tail -->", "<root2/>", "tail", "<?pi?>"]));
    }
    g.out
}

fn floor_char(s: &str, mut i: usize) -> usize {
    while i > 0 && !s.is_char_boundary(i) {
        i -= 1;
    }
    i
}

// ---------------------------------------------------------------------------------
// execution

#[derive(Debug)]
enum Out {
    Ok(Vec<String>),
    Err(String),
    Panic(PanicInfo),
}

fn run_str(text: &str, len: usize) -> Out {
    arm(len);
    match guard(|| quick_xml::de::from_str::<Dyn>(text)) {
        Ok(Ok(Dyn)) => Out::Ok(take_trace()),
        Ok(Err(e)) => Out::Err(format!("{:?}", e)),
        Err(p) => Out::Panic(p),
    }
}

/// a user-supplied entity resolver: knows a few names (one value contains markup
/// characters), refuses DOCTYPEs that mention "SYSTEM"
struct Resolver {
    seen: usize,
}
#[derive(Debug)]
struct DtdRefused;
impl fmt::Display for DtdRefused {
    fn fmt(&self, f: &mut fmt::Formatter) -> fmt::Result {
        f.write_str("external subsets are not supported")
    }
}
impl std::error::Error for DtdRefused {}
impl quick_xml::de::EntityResolver for Resolver {
    type Error = DtdRefused;
    fn capture(&mut self, doctype: quick_xml::events::BytesText) -> Result<(), DtdRefused> {
        self.seen += 1;
        if doctype.windows(6).any(|w| w == b"SYSTEM") {
            Err(DtdRefused)
        } else {
            Ok(())
        }
    }
    fn resolve(&self, entity: &str) -> Option<&str> {
        match entity {
            "lt" => Some("<"),
            "gt" => Some(">"),
            "amp" => Some("&"),
            "apos" => Some("'"),
            "quot" => Some("\""),
            "unknown" | "e" => Some("v"),
            "bad" | "p" => Some("<b>&amp;</b>"),
            "nbsp" => Some("\u{a0}"),
            "empty" => Some(""),
            _ => None,
        }
    }
}

pub struct DynScen;

impl Scenario for DynScen {
    fn name(&self) -> &'static str {
        "dyn"
    }
    fn panic_prop(&self) -> &'static str {
        "C07"
    }
    fn gen(&self, rng: &mut Rng, base_seed: u64, run: u64, _tier: Tier) -> Plan {
        let mut p = Plan::new("dyn", base_seed, run);
        if rng.chance(1, 25_000) {
            // a list field whose items are separated by a foreign element with thousands of
            // nested levels inside: skipping / buffering that subtree must not use stack in
            // proportion to its depth. Run in a child process (see `isolate`).
            let plain: Vec<u8> = (0..N_FSETS as u8)
                .filter(|&i| fset(i).len() >= 2 && fset(i).iter().all(|n| !n.starts_with('@') && !n.starts_with('$') && *n != "xsi:nil"))
                .collect();
            let set = *rng.pick(&plain);
            let names = fset(set);
            let fields: Vec<Shape> = (0..names.len()).map(|i| if i == 0 { Shape::Seq(Box::new(Shape::String)) } else { Shape::String }).collect();
            p.shape = Some(Shape::Struct { name: 0, set, fields, deny_unknown: false, defaults: true });
            let depth = *rng.pick(&[3000usize, 9000, 12000]);
            let mut doc = format!("<root><{0}>x</{0}>", names[0]);
            if rng.bool() {
                let inner = *rng.pick(&["d", "zz", names[0]]);
                doc.push_str("<zz>");
                for _ in 0..depth {
                    doc.push_str(&format!("<{}>", inner));
                }
                for _ in 0..depth {
                    doc.push_str(&format!("</{}>", inner));
                }
                doc.push_str("</zz>");
                p.note = format!("list items separated by an element nested {} deep; isolated", depth);
            } else {
                // flat instead of deep: thousands of consecutive tokens that the deserializer
                // drops (comments, processing instructions, blank text)
                let tok = *rng.pick(&["<!---->", "<?p?>", "<!--c-->\n", " <?p?> "]);
                for _ in 0..(140_000 / tok.len()).min(2 * depth) {
                    doc.push_str(tok);
                }
                p.note = format!("list items separated by a run of {:?} tokens; isolated", tok);
            }
            doc.push_str(&format!("<{0}>y</{0}></root>", names[0]));
            p.doc = doc.into_bytes();
            p.isolate = true;
            let (mut st, mode) = gen_stream(rng, &p.doc, false);
            st.keep_buf = false;
            st.faults.clear();
            // (coarse pieces: the point is the depth, not the chunking)
            st.cuts.retain(|c| c % 4096 == 0);
            p.stream = st;
            p.note.push_str(&format!("; cuts: {}", mode));
            return p;
        }
        let mut shuffle = 2;
        let mut untouched = 5;
        let shape = match rng.below(10) {
            0..=3 => gen_struct(rng, 0),
            4 => {
                shuffle = 4;
                untouched = 8;
                gen_struct_lists(rng, 0)
            }
            5 => gen_enum(rng, 0),
            _ => gen_shape(rng, 0),
        };
        // now and then the document is made for another shape: "valid XML, wrong shape"
        let mut doc = if rng.chance(1, 10) {
            let other = gen_shape(rng, 0);
            gen_doc_for(rng, &other, shuffle)
        } else {
            gen_doc_for(rng, &shape, shuffle)
        };
        p.note = String::from("document made for the shape");
        match rng.below(10) {
            n if n < untouched => {}
            0..=7 => {
                let n = rng.range(1, 3);
                let note = mutate_doc(rng, &mut doc, n);
                p.note.push_str(&format!("; mutated: {}", note));
            }
            8 => {
                let t = gen_soup(rng, 8, true);
                doc = String::from_utf8_lossy(&concat(&t)).into_owned();
                p.note = String::from("soup");
            }
            _ => {
                if doc.len() > 1 {
                    let at = floor_char(&doc, rng.range(1, doc.len() - 1));
                    doc.truncate(at);
                    p.note.push_str(&format!("; truncated at {}", at));
                }
            }
        }
        p.shape = Some(shape);
        if rng.chance(1, 16) {
            p.doc = crate::scen_de::to_cp1251(rng, &doc);
            p.note.push_str("; rewritten as windows-1251");
        } else {
            p.doc = doc.into_bytes();
        }
        let (mut st, mode) = gen_stream(rng, &p.doc, false);
        st.keep_buf = false;
        st.faults.clear();
        p.stream = st;
        p.note.push_str(&format!("; cuts: {}", mode));
        p
    }

    fn exec(&self, plan: &Plan, st: &mut Stats) -> Vec<Violation> {
        if plan.isolate && std::env::var_os("QXSIM_CHILD").is_none() {
            // very deep documents: a stack overflow of the library would take the whole check
            // down, so this plan runs in a child process
            st.executions += 2;
            st.bump("dyn.plans_run_in_a_child_process");
            st.note_distinct(plan.hash64(), true);
            let vs = crate::driver::exec_isolated(self, plan);
            st.fold_digest(plan.run, fnv_bytes(format!("{:?}", vs.iter().map(|v| &v.kind).collect::<Vec<_>>()).as_bytes()));
            return vs;
        }
        let mut out = vec![];
        let shape = match &plan.shape {
            Some(s) => Rc::new(s.clone()),
            None => return out,
        };
        ROOT.with(|r| *r.borrow_mut() = Some(shape.clone()));
        PROBES.with(|p| p.set(0));
        let text = std::str::from_utf8(&plan.doc).ok();
        let a = text.map(|t| run_str(t, plan.doc.len()));
        let shared = Rc::new(plan.doc.clone());
        let log = new_log(refill_budget(plan.doc.len(), &plan.stream) * 4);
        let src = make_sync(shared, &plan.stream, log.clone(), plan.run);
        arm(plan.doc.len());
        let b = match guard(|| quick_xml::de::from_reader::<_, Dyn>(src)) {
            Ok(Ok(Dyn)) => Out::Ok(take_trace()),
            Ok(Err(e)) => Out::Err(format!("{:?}", e)),
            Err(p) => Out::Panic(p),
        };
        // one Deserializer used for several values in a row; in the overlapped-lists
        // build also with a small event buffer limit: only no-panic / budgets apply
        let mut extra: Option<PanicInfo> = None;
        if let Some(t) = text {
            if plan.run % 4 == 0 {
                arm(3 * plan.doc.len() + 64);
                let r = guard(|| {
                    let mut de = quick_xml::de::Deserializer::from_str(t);
                    for _ in 0..3 {
                        if Sh(&shape).deserialize(&mut de).is_err() || de.is_empty() {
                            break;
                        }
                    }
                });
                extra = r.err();
            }
            if extra.is_none() && plan.run % 4 == 1 {
                // a caller-supplied EntityResolver (knows more names, may refuse a DOCTYPE)
                arm(plan.doc.len());
                let r = guard(|| {
                    let mut de = quick_xml::de::Deserializer::from_str_with_resolver(t, Resolver { seen: 0 });
                    Sh(&shape).deserialize(&mut de).map(|_| ())
                });
                extra = r.err();
            }
            #[cfg(feature = "enc")]
            {
                if extra.is_none() {
                    let limit = std::num::NonZeroUsize::new(1 + (plan.run % 4) as usize);
                    arm(plan.doc.len());
                    let r = guard(|| {
                        let mut de = quick_xml::de::Deserializer::from_str(t);
                        de.event_buffer_size(limit);
                        Sh(&shape).deserialize(&mut de).map(|_| ())
                    });
                    extra = r.err();
                }
            }
        }
        ROOT.with(|r| *r.borrow_mut() = None);
        if std::env::var_os("QXSIM_DYN_DEBUG").is_some() {
            // logging only: never influences the run
            eprintln!("type: {}\nfrom_str: {}\nfrom_reader: {}", describe(&shape), a.as_ref().map(show).unwrap_or_default(), show(&b));
        }
        let calls = log.borrow().total_calls;
        st.executions += if text.is_some() { 2 } else { 1 };
        st.bump(&format!("source.{}", plan.stream.kind.name()));
        st.add("fault.short_read_pieces", calls as u64);
        classify_cuts(&plan.doc, &plan.stream.cuts, &mut st.hits);
        st.note_schedule(fnv_bytes(&plan.stream.cuts.iter().flat_map(|c| c.to_le_bytes()).collect::<Vec<u8>>()) ^ fnv_bytes(&plan.doc) ^ calls as u64);
        let mut kinds = vec![];
        shape.kinds(&mut kinds);
        kinds.sort();
        kinds.dedup();
        for k in kinds {
            st.bump(&format!("dyn.shape_has.{}", k));
        }
        let probes = PROBES.with(|p| p.get());
        for (i, n) in PROBE_NAMES.iter().enumerate() {
            if probes & (1 << i) != 0 {
                st.bump(&format!("dyn.reached.{}", n));
            }
        }
        let extra_out = extra.map(Out::Panic);
        let mut str_ok = false;
        for (which, r) in [
            ("from_str", a.as_ref()),
            ("from_reader", Some(&b)),
            ("Deserializer::from_str used for several values / with a custom EntityResolver / with event_buffer_size(1..4)", extra_out.as_ref()),
        ] {
            match r {
                Some(Out::Panic(p)) => match p.kind {
                    PanicKind::Harness | PanicKind::Exec => crate::core::harness_fail(which, p, plan),
                    PanicKind::Library => out.push(Violation::new("C07", "panic", format!("{} into generated target type `{}` panicked at {}: {}", which, describe(&shape), p.loc, p.msg))),
                    PanicKind::Budget => out.push(Violation::new("C07", "non-termination", format!("{} into generated target type `{}`: {}", which, describe(&shape), p.msg))),
                    PanicKind::Misuse => out.push(Violation::new("C07", "seam-misuse", format!("{}: {}", which, p.msg))),
                },
                Some(Out::Ok(_)) => {
                    if which == "from_str" {
                        str_ok = true
                    }
                }
                _ => {}
            }
        }
        st.bump(if str_ok { "dyn.from_str_ok" } else { "dyn.from_str_fail" });
        let other_enc = crate::scen_de::declares_other_encoding(&plan.doc);
        let borrowed = shape.has_borrowed();
        if other_enc {
            st.bump("dyn.excluded_declares_other_encoding");
        }
        if borrowed {
            st.bump("dyn.excluded_from_C14_borrowing_shape");
        }
        if let Some(a) = &a {
            let equal = match (a, &b) {
                (Out::Ok(x), Out::Ok(y)) => x == y,
                (Out::Err(_), Out::Err(_)) => true,
                // a panic is reported above
                (Out::Panic(_), _) | (_, Out::Panic(_)) => true,
                _ => false,
            };
            if !equal && !other_enc && !borrowed {
                out.push(Violation::new(
                    "C14",
                    "str-reader-disagree",
                    format!("generated target type `{}`: from_str gave {}; from_reader over {} gave {}", describe(&shape), show(a), plan.stream.kind.name(), show(&b)),
                ));
            }
        }
        let inside = cut_inside_markup(&plan.doc, &plan.stream.cuts);
        st.note_distinct(plan.hash64(), inside || !str_ok);
        if inside && str_ok {
            st.bump("dyn.cut_inside_markup_and_ok");
        }
        st.fold_digest(plan.run, fnv_bytes(format!("{:?}{:?}", a, b).as_bytes()));
        out
    }

    fn shrink(&self, plan: &Plan) -> Vec<Plan> {
        // smaller shapes: replace one sub-shape by Ignored / its only child
        let mut v = vec![];
        if let Some(s) = &plan.shape {
            let mut alts = vec![];
            smaller(s, &mut alts);
            for a in alts.into_iter().take(40) {
                let mut p = plan.clone();
                p.shape = Some(a);
                v.push(p);
            }
        }
        v
    }
}

fn show(o: &Out) -> String {
    match o {
        Out::Ok(t) => {
            let s = t.join(" ");
            if s.len() > 600 {
                format!("Ok [{}…]", &s[..floor_char(&s, 600)])
            } else {
                format!("Ok [{}]", s)
            }
        }
        Out::Err(e) => format!("Err({})", e),
        Out::Panic(p) => format!("panic({})", p.msg),
    }
}

/// one-step simplifications of a shape
fn smaller(s: &Shape, out: &mut Vec<Shape>) {
    let kids = |v: &Vec<Shape>, rebuild: &dyn Fn(Vec<Shape>) -> Shape, out: &mut Vec<Shape>| {
        for i in 0..v.len() {
            if v[i] != Shape::Ignored {
                let mut w = v.clone();
                w[i] = Shape::Ignored;
                out.push(rebuild(w));
            }
            let mut sub = vec![];
            smaller(&v[i], &mut sub);
            for a in sub.into_iter().take(6) {
                let mut w = v.clone();
                w[i] = a;
                out.push(rebuild(w));
            }
        }
    };
    match s {
        Shape::Opt(i) | Shape::Newtype(_, i) | Shape::Seq(i) | Shape::Partial(i, _) => {
            out.push((**i).clone());
            let mut sub = vec![];
            smaller(i, &mut sub);
            for a in sub.into_iter().take(8) {
                out.push(match s {
                    Shape::Opt(_) => Shape::Opt(Box::new(a)),
                    Shape::Newtype(n, _) => Shape::Newtype(*n, Box::new(a)),
                    Shape::Partial(_, n) => Shape::Partial(Box::new(a), *n),
                    _ => Shape::Seq(Box::new(a)),
                });
            }
        }
        Shape::Tuple(v) => kids(v, &|w| Shape::Tuple(w), out),
        Shape::TupleStruct(n, v) => kids(v, &|w| Shape::TupleStruct(*n, w), out),
        Shape::Map(k, v) => {
            out.push((**v).clone());
            if **k != Shape::String {
                out.push(Shape::Map(Box::new(Shape::String), v.clone()));
            }
            let mut sub = vec![];
            smaller(v, &mut sub);
            for a in sub.into_iter().take(8) {
                out.push(Shape::Map(k.clone(), Box::new(a)));
            }
        }
        Shape::Struct { name, set, fields, deny_unknown, defaults } => {
            for f in fields {
                out.push(f.clone());
            }
            if *deny_unknown {
                out.push(Shape::Struct { name: *name, set: *set, fields: fields.clone(), deny_unknown: false, defaults: *defaults });
            }
            kids(fields, &|w| Shape::Struct { name: *name, set: *set, fields: w, deny_unknown: *deny_unknown, defaults: *defaults }, out)
        }
        Shape::Enum { name, set, variants } => {
            for i in 0..variants.len() {
                match &variants[i] {
                    VShape::Unit => {}
                    VShape::Newtype(inner) => {
                        let mut w = variants.clone();
                        w[i] = VShape::Unit;
                        out.push(Shape::Enum { name: *name, set: *set, variants: w });
                        let mut sub = vec![];
                        smaller(inner, &mut sub);
                        for a in sub.into_iter().take(6) {
                            let mut w = variants.clone();
                            w[i] = VShape::Newtype(Box::new(a));
                            out.push(Shape::Enum { name: *name, set: *set, variants: w });
                        }
                    }
                    VShape::Tuple(v) => {
                        let mut w = variants.clone();
                        w[i] = VShape::Unit;
                        out.push(Shape::Enum { name: *name, set: *set, variants: w });
                        let vs = variants.clone();
                        kids(
                            v,
                            &|x| {
                                let mut w = vs.clone();
                                w[i] = VShape::Tuple(x);
                                Shape::Enum { name: *name, set: *set, variants: w }
                            },
                            out,
                        );
                    }
                    VShape::Struct { set: fs, fields } => {
                        let mut w = variants.clone();
                        w[i] = VShape::Unit;
                        out.push(Shape::Enum { name: *name, set: *set, variants: w });
                        let vs = variants.clone();
                        kids(
                            fields,
                            &|x| {
                                let mut w = vs.clone();
                                w[i] = VShape::Struct { set: *fs, fields: x };
                                Shape::Enum { name: *name, set: *set, variants: w }
                            },
                            out,
                        );
                    }
                }
            }
        }
        Shape::Ignored => {}
        _ => out.push(Shape::Ignored),
    }
}

/// human-readable rendering of a shape with its field / variant names, for reports
pub fn describe(s: &Shape) -> String {
    match s {
        Shape::Opt(i) => format!("Option<{}>", describe(i)),
        Shape::Partial(i, n) => format!("[hand-written visitor returning Ok after {} entries of] {}", n, describe(i)),
        Shape::Newtype(n, i) => format!("struct {}({})", sname(*n), describe(i)),
        Shape::Seq(i) => format!("Vec<{}>", describe(i)),
        Shape::Tuple(v) => format!("({})", v.iter().map(describe).collect::<Vec<_>>().join(", ")),
        Shape::TupleStruct(n, v) => format!("struct {}({})", sname(*n), v.iter().map(describe).collect::<Vec<_>>().join(", ")),
        Shape::Map(k, v) => format!("Map<{}, {}>", describe(k), describe(v)),
        Shape::Struct { name, set, fields, deny_unknown, defaults } => format!(
            "struct {}{}{} {{ {} }}",
            sname(*name),
            if *deny_unknown { " #[deny_unknown_fields]" } else { "" },
            if *defaults { " #[default]" } else { "" },
            fset(*set).iter().zip(fields).map(|(n, f)| format!("{:?}: {}", n, describe(f))).collect::<Vec<_>>().join(", ")
        ),
        Shape::Enum { name, set, variants } => format!(
            "enum {} {{ {} }}",
            sname(*name),
            vset(*set)
                .iter()
                .zip(variants)
                .map(|(n, v)| match v {
                    VShape::Unit => format!("{:?}", n),
                    VShape::Newtype(s) => format!("{:?}({})", n, describe(s)),
                    VShape::Tuple(v) => format!("{:?}({})", n, v.iter().map(describe).collect::<Vec<_>>().join(", ")),
                    VShape::Struct { set, fields } => format!("{:?}{{ {} }}", n, fset(*set).iter().zip(fields).map(|(n, f)| format!("{:?}: {}", n, describe(f))).collect::<Vec<_>>().join(", ")),
                })
                .collect::<Vec<_>>()
                .join(", ")
        ),
        Shape::UnitStruct(n) => format!("struct {};", sname(*n)),
        other => format!("{:?}", other),
    }
}
