//! Running a reader to Eof under a Stream, with the always-on monitors (C03).

use std::rc::Rc;

use quick_xml::events::Event;

use crate::core::{guard, PanicInfo, PanicKind, Stats, Violation};
use crate::plan::{Plan, ReaderKind, SourceKind, Stream};
use crate::rd::{ErrClass, Out, Rd, Step};
use crate::source::{new_log, LogRef, Tr, A_DATA, A_EOF};

pub struct RunRec {
    pub steps: Vec<Step>,
    pub panic: Option<PanicInfo>,
    /// monitor findings (kind, detail) — all belong to C03
    pub monitor: Vec<(String, String)>,
    pub trace: Vec<Tr>,
    pub data_calls: u32,
    pub total_calls: u32,
    pub fired_eintr: u32,
    pub fired_pending: u32,
    pub fired_err: u32,
    pub err_fired: Option<(u32, u8, u64)>,
    pub hit_trunc_eof: bool,
    pub revived: bool,
    pub ticks: u64,
}

impl RunRec {
    pub fn hash(&self) -> u64 {
        let mut h: u64 = 0xcbf29ce484222325;
        let mut put = |x: u64| {
            h ^= x;
            h = h.wrapping_mul(0x100000001b3);
        };
        for s in &self.steps {
            put(s.pos);
            put(s.epos);
            match &s.out {
                Out::Ev(e) => put(crate::plan::fnv_bytes(format!("{:?}", e).as_bytes())),
                Out::Err { dbg, .. } => put(crate::plan::fnv_bytes(dbg.as_bytes())),
                Out::Raw(b) => put(crate::plan::fnv_bytes(b)),
            }
        }
        for t in &self.trace {
            put(((t.op as u64) << 40) ^ ((t.call as u64) << 20) ^ t.pos as u64);
            put(((t.act as u64) << 32) ^ t.len as u64);
        }
        if let Some(p) = &self.panic {
            put(crate::plan::fnv_bytes(p.loc.as_bytes()));
        }
        crate::rng::mix64(h)
    }
}

pub fn refill_budget(len: usize, st: &Stream) -> u32 {
    // each refill either hands out >= 1 new byte after a consume (<= len of those,
    // times 2 for re-offers of a partly consumed piece), or is a peek / end-of-stream
    // look / fault: a small constant number per read call, of which there are
    // at most 2*len+8. Generous on purpose: this guards against *loops*.
    let faults: u32 = st
        .faults
        .iter()
        .map(|f| match f.fault {
            crate::plan::Fault::Eintr(n) => n as u32,
            crate::plan::Fault::Pending { n, .. } => n as u32,
            crate::plan::Fault::Err(_) => 1,
        })
        .sum();
    (len as u32) * 12 + faults + 128
}

pub fn read_budget(len: usize) -> usize {
    2 * len + 4
}

/// extra calls made after the reader reported its terminal outcome
pub const EXTRA_CALLS: usize = 3;

/// Read events until Eof (plus EXTRA_CALLS), recording every step.
pub fn run_reads(doc: &[u8], shared: &Rc<Vec<u8>>, st: &Stream, kind: ReaderKind, cfg: u8, tag: u64, exercise: bool) -> RunRec {
    let log: LogRef = new_log(refill_budget(doc.len(), st));
    let mut steps: Vec<Step> = Vec::new();
    let mut monitor: Vec<(String, String)> = Vec::new();
    let mut ticks = 0u64;
    let eff_len = if st.revive { doc.len() } else { st.eof_at.map(|e| (e as usize).min(doc.len())).unwrap_or(doc.len()) };
    let res = guard(|| {
        let mut rd = Rd::new(doc, shared, st, kind, cfg, &log, tag);
        let budget = read_budget(eff_len) + EXTRA_CALLS + 1;
        let mut terminal: Option<usize> = None; // step index of Eof / Syntax error
        let mut last_pos = 0u64;
        let mut i = 0usize;
        loop {
            log.borrow_mut().cur_op = i as u32;
            let r = rd.read();
            if exercise {
                match &r {
                    Ok(e) => crate::accessors::exercise(e, rd.decoder()),
                    Err(e) => crate::accessors::exercise_err(e),
                }
            }
            let out = Out::from(r);
            let pos = rd.pos();
            let epos = rd.epos();
            // --- monitors ---
            if pos < last_pos {
                monitor.push(("position-decreased".into(), format!("step {}: {} -> {}", i, last_pos, pos)));
            }
            last_pos = pos;
            let limit = if matches!(st.kind, SourceKind::Slice | SourceKind::Str) { eff_len as u64 } else { log.borrow().handed };
            if pos > limit {
                monitor.push(("position-beyond-input".into(), format!("step {}: position {} > {} bytes handed out", i, pos, limit)));
            }
            if out.is_err() && epos > pos {
                monitor.push(("error-position-beyond-position".into(), format!("step {}: error_position {} > buffer_position {}", i, epos, pos)));
            }
            if let Some(t) = terminal {
                if !out.is_eof() {
                    monitor.push(("eof-not-final".into(), format!("step {} returned {} after terminal step {} ({})", i, out.short(), t, steps[t].out.short())));
                }
            }
            let is_terminal_now = match &out {
                Out::Ev(Event::Eof) => true,
                Out::Err { class: ErrClass::Syntax, .. } => true,
                _ => false,
            };
            let is_io = matches!(&out, Out::Err { class: ErrClass::Io { .. }, .. });
            steps.push(Step { out, pos, epos, enc: rd.encoding_name() });
            i += 1;
            if terminal.is_none() && is_terminal_now {
                terminal = Some(i - 1);
            }
            if let Some(t) = terminal {
                if i > t + EXTRA_CALLS {
                    break;
                }
            } else if is_io {
                // after an I/O error nothing is promised except no panic / termination:
                // make the extra calls, unmonitored for content
                for k in 0..EXTRA_CALLS {
                    log.borrow_mut().cur_op = (i + k) as u32;
                    let r = rd.read();
                    let out = Out::from(r);
                    steps.push(Step { out, pos: rd.pos(), epos: rd.epos(), enc: rd.encoding_name() });
                }
                break;
            }
            if i > budget {
                monitor.push(("read-budget".into(), format!("{} read calls without reaching Eof on {} input bytes (budget {})", i, eff_len, budget)));
                break;
            }
        }
        ticks = rd.timers.now();
    });
    let l = log.borrow();
    let mut rec = RunRec {
        steps,
        panic: None,
        monitor,
        trace: l.trace.clone(),
        data_calls: l.data_calls,
        total_calls: l.total_calls,
        fired_eintr: l.fired_eintr,
        fired_pending: l.fired_pending,
        fired_err: l.fired_err,
        err_fired: l.err_fired,
        hit_trunc_eof: l.hit_trunc_eof,
        revived: l.revived,
        ticks,
    };
    if let Err(p) = res {
        rec.panic = Some(p);
    }
    rec
}

/// turn monitor findings and panics of a run into C03 violations
pub fn monitor_violations(rec: &RunRec, plan: &Plan, what: &str, out: &mut Vec<Violation>) {
    if let Some(p) = &rec.panic {
        match p.kind {
            PanicKind::Harness | PanicKind::Exec => crate::core::harness_fail(what, p, plan),
            PanicKind::Library => out.push(Violation::new(
                "C03",
                "panic",
                format!("{}: panic at {} after {} steps: {}", what, p.loc, rec.steps.len(), p.msg),
            )),
            PanicKind::Budget => out.push(Violation::new(
                "C03",
                "non-termination",
                format!("{}: {} exceeded after {} steps, {} source calls", what, p.msg, rec.steps.len(), rec.total_calls),
            )),
            PanicKind::Misuse => out.push(Violation::new("C03", "seam-misuse", format!("{}: {}", what, p.msg))),
        }
    }
    for (k, d) in &rec.monitor {
        out.push(Violation::new("C03", k, format!("{}: {}", what, d)));
    }
}

pub fn trace_hash(trace: &[Tr]) -> u64 {
    let mut h: u64 = 0xcbf29ce484222325;
    for t in trace {
        for x in [t.op as u64, t.call as u64, t.pos as u64, t.act as u64, t.len as u64] {
            h ^= x;
            h = h.wrapping_mul(0x100000001b3);
        }
    }
    crate::rng::mix64(h)
}

pub fn count_faults(rec: &RunRec, st: &mut Stats) {
    st.note_schedule(trace_hash(&rec.trace));
    st.add("fault.eintr", rec.fired_eintr as u64);
    st.add("fault.pending", rec.fired_pending as u64);
    st.add("fault.io_error", rec.fired_err as u64);
    if rec.hit_trunc_eof {
        st.bump("fault.early_eof");
    }
    if rec.revived {
        st.bump("fault.eof_not_sticky");
        let eof_at = rec.trace.iter().position(|t| t.act == A_EOF);
        if let Some(i) = eof_at {
            if rec.trace[i..].iter().any(|t| t.act == A_DATA) {
                st.bump("fault.eof_not_sticky_and_the_library_read_again");
            }
        }
    }
    st.ticks += rec.ticks;
    let short = rec.trace.iter().filter(|t| t.act == A_DATA).count() as u64;
    st.add("fault.short_read_pieces", short);
    let _ = A_EOF;
}

pub fn first_diff(a: &[Step], b: &[Step]) -> Option<usize> {
    let n = a.len().min(b.len());
    for i in 0..n {
        if a[i] != b[i] {
            return Some(i);
        }
    }
    if a.len() != b.len() {
        Some(n)
    } else {
        None
    }
}

pub fn show_step(s: Option<&Step>) -> String {
    match s {
        None => "<no step>".to_string(),
        Some(s) => format!("{} pos={} errpos={} enc={}", s.out.short(), s.pos, s.epos, s.enc),
    }
}
