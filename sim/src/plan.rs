//! The Plan: everything one simulated run does, fully materialised before the run
//! starts.  Executing a Plan draws no random numbers and reads no clock, so the
//! Plan *is* the replay file.

use serde::{Deserialize, Serialize};

pub mod hexbytes {
    use serde::{Deserialize, Deserializer, Serializer};
    pub fn serialize<S: Serializer>(v: &Vec<u8>, s: S) -> Result<S::Ok, S::Error> {
        let mut out = String::with_capacity(v.len() * 2);
        for b in v {
            out.push_str(&format!("{:02x}", b));
        }
        s.serialize_str(&out)
    }
    pub fn deserialize<'de, D: Deserializer<'de>>(d: D) -> Result<Vec<u8>, D::Error> {
        let s = String::deserialize(d)?;
        let b = s.as_bytes();
        if b.len() % 2 != 0 {
            return Err(serde::de::Error::custom("odd hex length"));
        }
        let mut out = Vec::with_capacity(b.len() / 2);
        for i in (0..b.len()).step_by(2) {
            let h = std::str::from_utf8(&b[i..i + 2]).map_err(serde::de::Error::custom)?;
            out.push(u8::from_str_radix(h, 16).map_err(serde::de::Error::custom)?);
        }
        Ok(out)
    }
}

/// Kind of a generated token. The generator knows the lexical structure of what it
/// emitted; models are computed from this list, never from the library's output.
#[derive(Serialize, Deserialize, Clone, Copy, Debug, PartialEq, Eq, Hash)]
pub enum TK {
    Text,
    Start,
    End,
    Empty,
    Comment,
    CData,
    PI,
    Decl,
    DocType,
    /// raw bytes of unknown structure (soup / mutation residue)
    Raw,
}

#[derive(Serialize, Deserialize, Clone, Debug, PartialEq, Eq, Hash)]
pub struct Tok {
    pub k: TK,
    /// exact bytes of the token in the document
    #[serde(with = "hexbytes")]
    pub raw: Vec<u8>,
    /// element name for Start/End/Empty (for End: the name the generator meant,
    /// without trailing blanks or attributes)
    #[serde(default, skip_serializing_if = "String::is_empty")]
    pub name: String,
    /// attributes (key, raw value) for Start/Empty, in order
    #[serde(default, skip_serializing_if = "Vec::is_empty")]
    pub attrs: Vec<(String, String)>,
}

impl Tok {
    pub fn new(k: TK, raw: impl Into<Vec<u8>>) -> Tok {
        Tok { k, raw: raw.into(), name: String::new(), attrs: vec![] }
    }
    pub fn text(&self) -> String {
        String::from_utf8_lossy(&self.raw).into_owned()
    }
}

/// The seven reader switches packed in one byte (bit set = true).
pub const CFG_ALLOW_UNMATCHED: u8 = 1;
pub const CFG_CHECK_COMMENTS: u8 = 2;
pub const CFG_CHECK_END_NAMES: u8 = 4;
pub const CFG_EXPAND_EMPTY: u8 = 8;
pub const CFG_TRIM_NAMES: u8 = 16;
pub const CFG_TRIM_START: u8 = 32;
pub const CFG_TRIM_END: u8 = 64;
/// the library's default configuration
pub const CFG_DEFAULT: u8 = CFG_CHECK_END_NAMES | CFG_TRIM_NAMES;

pub fn apply_cfg(c: &mut quick_xml::reader::Config, bits: u8) {
    c.allow_unmatched_ends = bits & CFG_ALLOW_UNMATCHED != 0;
    c.check_comments = bits & CFG_CHECK_COMMENTS != 0;
    c.check_end_names = bits & CFG_CHECK_END_NAMES != 0;
    c.expand_empty_elements = bits & CFG_EXPAND_EMPTY != 0;
    c.trim_markup_names_in_closing_tags = bits & CFG_TRIM_NAMES != 0;
    c.trim_text_start = bits & CFG_TRIM_START != 0;
    c.trim_text_end = bits & CFG_TRIM_END != 0;
}

pub fn read_cfg(c: &quick_xml::reader::Config) -> u8 {
    let mut b = 0;
    if c.allow_unmatched_ends {
        b |= CFG_ALLOW_UNMATCHED
    }
    if c.check_comments {
        b |= CFG_CHECK_COMMENTS
    }
    if c.check_end_names {
        b |= CFG_CHECK_END_NAMES
    }
    if c.expand_empty_elements {
        b |= CFG_EXPAND_EMPTY
    }
    if c.trim_markup_names_in_closing_tags {
        b |= CFG_TRIM_NAMES
    }
    if c.trim_text_start {
        b |= CFG_TRIM_START
    }
    if c.trim_text_end {
        b |= CFG_TRIM_END
    }
    b
}

pub fn cfg_text(bits: u8) -> String {
    let names = [
        "allow_unmatched_ends",
        "check_comments",
        "check_end_names",
        "expand_empty_elements",
        "trim_markup_names_in_closing_tags",
        "trim_text_start",
        "trim_text_end",
    ];
    let mut v = vec![];
    for (i, n) in names.iter().enumerate() {
        if bits & (1 << i) != 0 {
            v.push(*n);
        }
    }
    v.join("+")
}

/// What the caller (driven by the simulator) does next.
#[derive(Serialize, Deserialize, Clone, Debug, PartialEq, Eq, Hash)]
pub enum Op {
    /// read_event / read_event_into / read_event_into_async
    Read,
    /// NsReader::read_resolved_event*
    ReadResolved,
    /// read_to_end* of the element whose Start was just returned
    Skip,
    /// read_text (slice source only)
    ReadText,
    /// read_to_end* with the name of the n-th enclosing open element (0 = innermost),
    /// issued at any point inside it (skip scenario, plain Reader only)
    SkipUp(u8),
    /// config_mut(): set switch `bit` to `on`
    Flip { bit: u8, on: bool },
    /// read `n` raw bytes through Reader::stream(): via 0 = Read::read_exact /
    /// AsyncReadExt::read_exact, 1 = fill_buf + consume loops, 2 = single read() calls,
    /// 3 = read_to_end into a non-empty Vec (reads the rest of the input), 4 = read_until(b'>') into a non-empty Vec
    Raw { n: u16, via: u8 },
}

#[derive(Serialize, Deserialize, Clone, Copy, Debug, PartialEq, Eq, Hash)]
pub enum SourceKind {
    /// Reader<&[u8]> (borrowing)
    Slice,
    /// Reader::from_str / NsReader::from_str (borrowing; with the `encoding` feature the
    /// encoding is locked to UTF-8). Only used for valid UTF-8 documents.
    Str,
    /// our own BufRead
    SimBufRead,
    /// real std::io::BufReader::with_capacity(cap) over our Read
    StdBufReader,
    /// our own AsyncBufRead
    SimAsyncBufRead,
    /// real tokio::io::BufReader::with_capacity(cap) over our AsyncRead
    TokioBufReader,
}

impl SourceKind {
    pub fn is_async(self) -> bool {
        matches!(self, SourceKind::SimAsyncBufRead | SourceKind::TokioBufReader)
    }
    pub fn name(self) -> &'static str {
        match self {
            SourceKind::Slice => "Slice",
            SourceKind::Str => "Str",
            SourceKind::SimBufRead => "SimBufRead",
            SourceKind::StdBufReader => "StdBufReader",
            SourceKind::SimAsyncBufRead => "SimAsyncBufRead",
            SourceKind::TokioBufReader => "TokioBufReader",
        }
    }
}

pub const ERR_KINDS: [std::io::ErrorKind; 5] = [
    std::io::ErrorKind::Other,
    std::io::ErrorKind::UnexpectedEof,
    std::io::ErrorKind::ConnectionReset,
    std::io::ErrorKind::TimedOut,
    std::io::ErrorKind::WouldBlock,
];

#[derive(Serialize, Deserialize, Clone, Copy, Debug, PartialEq, Eq, Hash)]
pub enum Fault {
    /// ErrorKind::Interrupted, n times in a row
    Eintr(u8),
    /// Poll::Pending n times; defer = 0: wake immediately from inside poll,
    /// defer = d > 0: the executor wakes the task d ticks later
    Pending { n: u8, defer: u8 },
    /// one-shot io::Error of kind ERR_KINDS[k % 5]; payload carries a unique tag, as a
    /// string (k < 5) or inside a quick_xml::Error (k >= 5)
    Err(u8),
}

/// `fault` is played just before the source serves its `call`-th non-faulting
/// refill call (0-based), so fault positions are comparable with the fault-free run.
#[derive(Serialize, Deserialize, Clone, Copy, Debug, PartialEq, Eq, Hash)]
pub struct FaultAt {
    pub call: u32,
    pub fault: Fault,
}

#[derive(Serialize, Deserialize, Clone, Debug, PartialEq, Eq, Hash)]
pub struct Stream {
    pub kind: SourceKind,
    /// capacity of the wrapping BufReader (StdBufReader / TokioBufReader)
    pub cap: u32,
    /// absolute offsets at which a piece ends (sorted, 0 < c < len)
    pub cuts: Vec<u32>,
    /// caller keeps appending to its Vec instead of clearing it between events
    pub keep_buf: bool,
    /// a second fill_buf without full consumption may return a longer slice
    pub grow: bool,
    pub faults: Vec<FaultAt>,
    /// the stream ends here although the document is longer (peer closed)
    pub eof_at: Option<u32>,
    /// end of input is not sticky: once the source has reported the early end (`eof_at`) the
    /// rest of the document becomes readable (a file that is still being written)
    #[serde(default)]
    pub revive: bool,
}

impl Stream {
    pub fn slice() -> Stream {
        Stream {
            kind: SourceKind::Slice,
            cap: 0,
            cuts: vec![],
            keep_buf: false,
            grow: false,
            faults: vec![],
            eof_at: None,
            revive: false,
        }
    }
}

#[derive(Serialize, Deserialize, Clone, Copy, Debug, PartialEq, Eq, Hash)]
pub enum ReaderKind {
    Plain,
    Ns,
}

/// One builder call of the C09 workload.
#[derive(Serialize, Deserialize, Clone, Debug, PartialEq, Eq, Hash)]
pub enum Build {
    /// BytesStart::new(name) followed by in-place edits, written as Start or Empty
    Elem { empty: bool, name: String, edits: Vec<Edit> },
    /// BytesEnd::new(name)
    End(String),
    /// BytesText::new(s)
    Text(String),
    /// BytesText::new(s) (made owned first if `owned`), then inplace_trim_start() /
    /// inplace_trim_end() as flagged, then written
    TextTrim { s: String, start: bool, end: bool, owned: bool },
    /// an End made from a start tag: BytesStart::new(name) (+ one attribute if `attrs`) .to_end()
    EndOf { name: String, attrs: bool },
    /// a Text made another way than BytesText::new: mode 0/1/2 = BytesText::from_escaped of
    /// escape::escape / partial_escape / minimal_escape (s), 3 = BytesText::new(s).borrow(),
    /// 4 = BytesText::new(s).into_owned(), 5/6/7 = BytesCData::new(s).escape() /
    /// .partial_escape() / .minimal_escape(), 8 = BytesText::from_escaped of the string escaped
    /// by the caller with numeric character references
    TextVia { s: String, mode: u8 },
    /// BytesCData::escaped(s): as many CData events as the iterator yields
    CDataEscaped(String),
    /// BytesCData::new(s), s without "]]>"
    CData(String),
    /// BytesText::from_escaped(s) as Comment, s without "--", not ending in '-'
    Comment(String),
    /// BytesPI::new(s)
    PI(String),
    /// BytesDecl::new(version, encoding, standalone)
    Decl { version: String, encoding: Option<String>, standalone: Option<String> },
    /// BytesText::from_escaped(s) as DocType
    DocType(String),
    /// Event::Eof written in the middle of the sequence (writes nothing)
    Eof,
    /// Writer::write_bom() (only generated as the very first call)
    Bom,
    /// Writer::write_indent() / write_indent_async()
    Indent,
    /// Writer::create_element(name).with_attribute(..)* then one of the content calls
    Builder {
        name: String,
        attrs: Vec<(String, String)>,
        content: BuilderContent,
        /// bit i: ElementWriter::new_line() before attribute i; bit 7: the remaining
        /// attributes are passed in one with_attributes(iter) call
        #[serde(default)]
        nl: u8,
    },
}

#[derive(Serialize, Deserialize, Clone, Debug, PartialEq, Eq, Hash)]
pub enum BuilderContent {
    Empty,
    Text(String),
    CData(String),
    PI(String),
    /// write_inner_content writing one Text event
    Inner(String),
}

#[derive(Serialize, Deserialize, Clone, Debug, PartialEq, Eq, Hash)]
pub enum Edit {
    Push(String, String),
    /// push_attribute((key, Cow::Owned(value)))
    PushOwned(String, String),
    /// push_attribute((key, Cow::Borrowed(value)))
    PushCowBorrowed(String, String),
    Extend(Vec<(String, String)>),
    With(Vec<(String, String)>),
    SetName(String),
    Clear,
    /// only as the first edit: the tag does not start as BytesStart::new(name) but already
    /// carries `init` attributes and comes from 0 = BytesStart::from_content(owned String),
    /// 1 = BytesStart::from_content(&str), 2 = a Start event handed out by a Reader,
    /// 3 = template.borrow() of another BytesStart
    Origin { kind: u8, init: Vec<(String, String)> },
}

/// how the async sink / pipe behaves; consumed cyclically
#[derive(Serialize, Deserialize, Clone, Debug, PartialEq, Eq, Hash, Default)]
pub struct PipePlan {
    pub capacity: u32,
    /// per poll_write: how many bytes are accepted at most (>= 1)
    pub accept: Vec<u8>,
    /// per poll_write: number of Pending to return first (mostly 0)
    pub wpend: Vec<u8>,
    /// per reader refill: max piece size taken out of the pipe
    pub take: Vec<u8>,
    /// per reader refill: number of Pending first
    pub rpend: Vec<u8>,
    /// executor choice stream
    pub sched: Vec<u8>,
    /// write error injected when this many bytes have been accepted
    pub werr_at: Option<u32>,
    /// indentation (char, size) for both writers
    pub indent: Option<(u8, u8)>,
    /// the async sink announces and implements vectored writes natively (like a socket):
    /// one call may accept bytes of several slices and stop inside a later one
    #[serde(default)]
    pub vectored: bool,
}

#[derive(Serialize, Deserialize, Clone, Debug, PartialEq, Eq, Hash)]
pub struct Plan {
    pub scenario: String,
    pub base_seed: u64,
    pub run: u64,
    /// document bytes (for token documents: concatenation of the tokens)
    #[serde(with = "hexbytes")]
    pub doc: Vec<u8>,
    #[serde(default, skip_serializing_if = "Vec::is_empty")]
    pub toks: Vec<Tok>,
    pub cfg: u8,
    pub reader: ReaderKind,
    #[serde(default, skip_serializing_if = "Vec::is_empty")]
    pub ops: Vec<Op>,
    pub stream: Stream,
    /// fault scenario: enumerate every refill call as fault point (otherwise
    /// `stream.faults` is used as is)
    #[serde(default)]
    pub enumerate: bool,
    /// de scenario: which type of the family is the target
    #[serde(default)]
    pub type_id: u32,
    /// run this plan in a child process (a stack overflow or any other abort of the library
    /// cannot be caught in-process; the parent turns the child's death into a violation)
    #[serde(default)]
    pub isolate: bool,
    /// dyn scenario: the generated target type
    #[serde(default, skip_serializing_if = "Option::is_none")]
    pub shape: Option<crate::scen_dyn::Shape>,
    /// pipe scenario
    #[serde(default, skip_serializing_if = "Vec::is_empty")]
    pub builds: Vec<Build>,
    #[serde(default)]
    pub pipe: PipePlan,
    /// free-form: how the document was made (mode, mutations)
    #[serde(default, skip_serializing_if = "String::is_empty")]
    pub note: String,
}

impl Plan {
    pub fn new(scenario: &str, base_seed: u64, run: u64) -> Plan {
        Plan {
            scenario: scenario.to_string(),
            base_seed,
            run,
            doc: vec![],
            toks: vec![],
            cfg: CFG_DEFAULT,
            reader: ReaderKind::Plain,
            ops: vec![],
            stream: Stream::slice(),
            enumerate: false,
            type_id: 0,
            isolate: false,
            shape: None,
            builds: vec![],
            pipe: PipePlan::default(),
            note: String::new(),
        }
    }
    /// rebuild `doc` from `toks`
    pub fn sync_doc(&mut self) {
        if !self.toks.is_empty() {
            self.doc = self.toks.iter().flat_map(|t| t.raw.iter().copied()).collect();
        }
    }
    pub fn hash64(&self) -> u64 {
        use std::hash::{Hash, Hasher};
        let mut h = Fnv(0xcbf29ce484222325);
        // provenance is not part of identity
        self.scenario.hash(&mut h);
        self.doc.hash(&mut h);
        self.cfg.hash(&mut h);
        self.reader.hash(&mut h);
        self.ops.hash(&mut h);
        self.stream.hash(&mut h);
        self.enumerate.hash(&mut h);
        self.type_id.hash(&mut h);
        self.shape.hash(&mut h);
        self.isolate.hash(&mut h);
        self.builds.hash(&mut h);
        self.pipe.hash(&mut h);
        h.finish()
    }
}

/// FNV-1a: deterministic across processes (std's SipHash with fixed keys would be
/// too, but this makes the point explicit)
pub struct Fnv(pub u64);
impl std::hash::Hasher for Fnv {
    fn finish(&self) -> u64 {
        crate::rng::mix64(self.0)
    }
    fn write(&mut self, bytes: &[u8]) {
        for b in bytes {
            self.0 ^= *b as u64;
            self.0 = self.0.wrapping_mul(0x100000001b3);
        }
    }
}

pub fn fnv_bytes(b: &[u8]) -> u64 {
    use std::hash::Hasher;
    let mut h = Fnv(0xcbf29ce484222325);
    h.write(b);
    h.finish()
}
