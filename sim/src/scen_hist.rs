//! History scenarios: the caller's *sequence of calls* against one stateful reader is
//! the thing explored, together with the byte schedule underneath.
//!   `skip` (C12)  read_to_end* / read_text against generator-known element spans
//!   `ns`   (C05)  namespace scopes against a scope model computed from the tokens
//!   `nest` (C04)  end-tag matching against a nondeterministic open-element stack

use std::collections::BTreeSet;
use std::rc::Rc;

use quick_xml::errors::{Error, IllFormedError};
use quick_xml::events::Event;
use quick_xml::name::NamespaceError;

use crate::common::*;
use crate::core::{guard, PanicKind, Scenario, Stats, Tier, Violation};
use crate::gen::*;
use crate::plan::*;
use crate::rd::{ErrClass, Out, Rd, Res};
use crate::rng::Rng;
use crate::source::new_log;

fn is_ws(b: u8) -> bool {
    matches!(b, b' ' | b'\t' | b'\r' | b'\n')
}

/// index of the End token matching the Start token `i` (by nesting, all names)
fn match_table(toks: &[Tok]) -> Vec<Option<usize>> {
    let mut m = vec![None; toks.len()];
    let mut stack: Vec<usize> = vec![];
    for (i, t) in toks.iter().enumerate() {
        match t.k {
            TK::Start => stack.push(i),
            // (an end tag marked as stray closes nothing)
            TK::End if t.attrs.is_empty() => {
                if let Some(s) = stack.pop() {
                    m[s] = Some(i);
                    m[i] = Some(s);
                }
            }
            _ => {}
        }
    }
    m
}

/// a surplus end tag: tolerated with allow_unmatched_ends and name checks off; it closes
/// nothing lexically but shifts the reader's own open-element stack
fn stray_end(name: &str) -> Tok {
    Tok { k: TK::End, raw: format!("</{}>", name).into_bytes(), name: name.to_string(), attrs: vec![("stray".to_string(), String::new())] }
}

fn panic_to_violation(p: &crate::core::PanicInfo, plan: &Plan, what: &str, monitor_prop: &'static str, out: &mut Vec<Violation>) {
    match p.kind {
        PanicKind::Harness | PanicKind::Exec => crate::core::harness_fail(what, p, plan),
        PanicKind::Library => out.push(Violation::new(monitor_prop, "panic", format!("{}: panic at {}: {}", what, p.loc, p.msg))),
        PanicKind::Budget => out.push(Violation::new(monitor_prop, "non-termination", format!("{}: {}", what, p.msg))),
        PanicKind::Misuse => out.push(Violation::new(monitor_prop, "seam-misuse", format!("{}: {}", what, p.msg))),
    }
}

fn gen_hist_stream(rng: &mut Rng, doc: &[u8], slice_share: usize) -> Stream {
    if rng.chance(slice_share, 8) {
        Stream::slice()
    } else {
        gen_stream(rng, doc, true).0
    }
}

// =================================================================================
// skip (C12)

pub struct Skip;

const SKIP_NAMES: &[&str] = &["a", "b", "a:b", "ab"];

fn gen_skip_elem(rng: &mut Rng, depth: usize, out: &mut Vec<Tok>, max: usize) {
    let name = *rng.pick(SKIP_NAMES);
    if rng.chance(2, 8) || out.len() + 2 > max {
        out.push(tok_empty(rng, name, false));
        return;
    }
    out.push(tok_start(rng, name, false));
    let n = if depth >= 5 { rng.below(2) } else { rng.below(5) };
    for _ in 0..n {
        if out.len() + 2 > max {
            break;
        }
        match rng.below(12) {
            0..=5 => gen_skip_elem(rng, depth + 1, out, max),
            6 | 7 => {
                if out.last().map(|l| l.k) != Some(TK::Text) {
                    // whitespace before end tags / after start tags matters here
                    let t = *rng.pick(&[" ", "\n  ", "x", " x ", "</a", "t&amp;", "\t", ">", "a>"]);
                    // "</a" would be markup: keep text free of '<'
                    let t = t.replace('<', "");
                    if !t.is_empty() {
                        out.push(Tok::new(TK::Text, t));
                    }
                }
            }
            8 => out.push(Tok::new(TK::Comment, format!("<!--{}-->", rng.pick(&["</a>", "</b>", "<a>", " c ", "</a:b>", ">", "-", "a--b", "--"])))),
            9 => out.push(Tok::new(TK::CData, format!("<![CDATA[{}]]>", rng.pick(&["</a>", "</b>", "<a>", "x", "]]", "</ab>"])))),
            10 => out.push(Tok::new(TK::PI, format!("<?{}?>", rng.pick(&["p </a>", "p", "p <a>", "x ?"])))),
            _ => {
                // look-alike end tag inside an attribute value
                let nm = *rng.pick(SKIP_NAMES);
                let raw = format!("<{} k=\"</{}>\"/>", nm, rng.pick(SKIP_NAMES));
                out.push(Tok { k: TK::Empty, raw: raw.into_bytes(), name: nm.to_string(), attrs: vec![] });
            }
        }
    }
    let mut e = tok_end(rng, name, false);
    if rng.chance(1, 6) {
        e.raw = format!("</{}\n>", name).into_bytes();
    }
    out.push(e);
}

impl Scenario for Skip {
    fn name(&self) -> &'static str {
        "skip"
    }
    fn gen(&self, rng: &mut Rng, base_seed: u64, run: u64, _tier: Tier) -> Plan {
        let mut p = Plan::new("skip", base_seed, run);
        let mut toks = vec![];
        if rng.chance(1, 4) {
            // read_text decodes with the declared encoding (C17's subject): keep to UTF-8 here
            toks.push(Tok::new(
                TK::Decl,
                *rng.pick(&["<?xml version=\"1.0\"?>", "<?xml version='1.0' encoding=\"UTF-8\"?>", "<?xml version=\"1.0\" standalone='yes' ?>"]),
            ));
        }
        if rng.chance(1, 5) {
            toks.push(Tok::new(TK::Text, "\n"));
        }
        let max = rng.range(4, 40);
        gen_skip_elem(rng, 1, &mut toks, max);
        if toks.last().map(|t| t.k) == Some(TK::Empty) && toks.len() < 3 {
            // a lone <e/>: wrap it so there is something to skip
            let mut w = vec![tok_start(rng, "a", false)];
            w.append(&mut toks);
            w.push(tok_end(rng, "a", false));
            toks = w;
        }
        if rng.chance(1, 4) {
            toks.push(Tok::new(TK::Text, *rng.pick(&["\n", " tail", " "])));
        }
        if rng.chance(1, 6) {
            gen_skip_elem(rng, 1, &mut toks, max + 6);
        }
        if rng.chance(1, 12) {
            p.note = format!("stretched: {}", stretch_tokens(rng, &mut toks, true));
        }
        let declared = toks.iter().any(|t| t.raw.windows(8).any(|w| w == b"encoding"));
        if cfg!(feature = "enc") && !declared && rng.chance(1, 8) {
            // an embedded prolog: the first encoding declaration of the input lies INSIDE an
            // element (an envelope around a concatenated document), and the text after it
            // has bytes >= 0x80; read_text must decode the span with the encoding in force
            // after the call. Only in the `encoding` build: without it such bytes are
            // simply not UTF-8 and read_text fails by design.
            let starts: Vec<usize> = (0..toks.len()).filter(|&i| toks[i].k == TK::Start).collect();
            if !starts.is_empty() {
                let at = *rng.pick(&starts) + 1;
                toks.insert(at, Tok::new(TK::PI, "<?xml version=\"1.0\" encoding=\"windows-1251\"?>"));
                for t in toks.iter_mut().skip(at + 1) {
                    if t.k == TK::Text && rng.bool() {
                        t.raw.extend_from_slice(&[0xCF, 0xF0, 0xE8]);
                    }
                }
                if !toks.iter().skip(at + 1).any(|t| t.k == TK::Text) {
                    toks.insert(at + 1, Tok { k: TK::Text, raw: vec![0xCF, 0xF0], name: String::new(), attrs: vec![] });
                }
                p.note.push_str(" embedded windows-1251 declaration");
            }
        }
        // surplus end tags inside the elements (only read with unmatched ends allowed and name
        // checks off, where they are no error): the element to skip is still open in the
        // document although the reader's own stack has been popped too far
        let strays = rng.chance(1, 10);
        if strays {
            for _ in 0..rng.range(1, 2) {
                let first = toks.iter().position(|t| t.k == TK::Start);
                let last = toks.iter().rposition(|t| t.k == TK::End);
                if let (Some(a), Some(b)) = (first, last) {
                    if b > a {
                        let at = rng.range(a + 1, b);
                        toks.insert(at, stray_end(*rng.pick(&["zz", "q9", "a.b"])));
                    }
                }
            }
            p.note.push_str(" surplus end tags");
        }
        p.toks = toks;
        p.sync_doc();
        let mut cfg = CFG_TRIM_NAMES;
        for b in [CFG_TRIM_START, CFG_TRIM_END, CFG_EXPAND_EMPTY, CFG_CHECK_END_NAMES, CFG_ALLOW_UNMATCHED] {
            if rng.bool() {
                cfg |= b;
            }
        }
        if strays {
            cfg |= CFG_ALLOW_UNMATCHED;
            cfg &= !CFG_CHECK_END_NAMES;
        }
        if rng.chance(1, 5) {
            cfg |= CFG_CHECK_COMMENTS;
        }
        p.cfg = cfg;
        p.reader = if rng.chance(1, 5) { ReaderKind::Ns } else { ReaderKind::Plain };
        p.stream = gen_hist_stream(rng, &p.doc, 2);
        let n_ops = rng.range(2, 2 * p.toks.len() + 2);
        let skip_share = *rng.pick(&[2usize, 4, 8]);
        let flip_share = if strays { 0 } else { *rng.pick(&[0usize, 0, 6, 12]) };
        let up_share = if p.reader == ReaderKind::Plain { *rng.pick(&[0usize, 0, 2, 4]) } else { 0 };
        for _ in 0..n_ops {
            if flip_share > 0 && rng.chance(1, flip_share) {
                let bit = *rng.pick(&[CFG_TRIM_START, CFG_TRIM_START, CFG_TRIM_END, CFG_EXPAND_EMPTY, CFG_CHECK_END_NAMES, CFG_ALLOW_UNMATCHED, CFG_CHECK_COMMENTS]);
                p.ops.push(Op::Flip { bit, on: rng.bool() });
            }
            p.ops.push(if rng.chance(1, skip_share) {
                if up_share > 0 && rng.chance(1, up_share) {
                    Op::SkipUp(rng.below(4) as u8)
                } else if p.stream.kind == SourceKind::Slice && rng.chance(1, 3) {
                    Op::ReadText
                } else {
                    Op::Skip
                }
            } else {
                Op::Read
            });
        }
        // failure paths
        match rng.below(10) {
            0 | 1 => p.stream.eof_at = Some(rng.below(p.doc.len().max(1)) as u32),
            2 if p.stream.kind != SourceKind::Slice => {
                let calls = (p.stream.cuts.len() * 2 + 8) as usize;
                p.stream.faults.push(FaultAt { call: rng.below(calls) as u32, fault: Fault::Err(rng.below(10) as u8) });
                p.stream.faults.sort_by_key(|f| f.call);
            }
            3 if p.stream.kind != SourceKind::Slice => {
                let calls = (p.stream.cuts.len() * 2 + 8) as usize;
                p.stream.faults.push(FaultAt { call: rng.below(calls) as u32, fault: Fault::Eintr(rng.range(1, 3) as u8) });
                p.stream.faults.sort_by_key(|f| f.call);
            }
            _ => {}
        }
        p
    }

    fn exec(&self, plan: &Plan, st: &mut Stats) -> Vec<Violation> {
        let mut out = vec![];
        let shared = Rc::new(plan.doc.clone());
        let toks = &plan.toks;
        let sp = spans(toks);
        let mt = match_table(toks);
        let eff_len = plan.stream.eof_at.map(|e| (e as usize).min(plan.doc.len())).unwrap_or(plan.doc.len());
        // The reference is a second reader (slice, same bytes, same truncation) driven in
        // lock step: it reads every event one by one where the reader under test skips,
        // and it receives the same configuration flips at the same points.
        let mut ref_st = Stream::slice();
        ref_st.eof_at = plan.stream.eof_at;
        let log = new_log(refill_budget(plan.doc.len(), &plan.stream) * 2);
        let ref_log = new_log(u32::MAX);
        let mut nontrivial = false;
        let mut skips = 0u64;
        let mut fail_paths = 0u64;
        let mut flips = 0u64;
        let mut skips_after_failure = 0u64;
        let mut skips_up = 0u64;
        let mut v: Vec<Violation> = vec![];
        let mut digest = 0u64;
        let res = guard(|| {
            let mut rd = Rd::new(&plan.doc, &shared, &plan.stream, plan.reader, plan.cfg, &log, plan.run);
            let mut rf = Rd::new(&plan.doc, &shared, &ref_st, plan.reader, plan.cfg, &ref_log, plan.run);
            let mut cfg = plan.cfg;
            let mut had_failure = false;
            let mut last_start: Option<(Vec<u8>, u64)> = None; // (name, pos after) of the Start just returned
            // token indices of the elements the caller is inside of, as far as known from
            // the events read so far; given up (`open_known = false`) after any failure
            let mut open: Vec<usize> = vec![];
            let mut open_known = true;
            for (oi, op) in plan.ops.iter().enumerate() {
                log.borrow_mut().cur_op = oi as u32;
                if let Op::SkipUp(n) = op {
                    if open_known && !open.is_empty() && !had_failure && plan.reader == ReaderKind::Plain {
                        // ---- read_to_end with the name of an enclosing open element ----
                        let k = open.len() - 1 - (*n as usize % open.len());
                        let name = toks[open[k]].name.as_bytes().to_vec();
                        // counting nested elements of the same name, the call ends at the end
                        // tag of the innermost open element that has this name
                        let e = (0..open.len()).rev().find(|&i| toks[open[i]].name.as_bytes() == &name[..]).unwrap();
                        let ti = open[e];
                        let pos_before = rd.pos();
                        let pseudo = toks[ti].k == TK::Empty; // only the Start half of an expanded <e/> was read
                        let expect: Option<(u64, u64)> = if pseudo {
                            Some((pos_before, pos_before))
                        } else {
                            match mt[ti] {
                                Some(m) if sp[m].1 <= eff_len => Some((sp[m].0 as u64, sp[m].1 as u64)),
                                _ => None,
                            }
                        };
                        skips += 1;
                        skips_up += 1;
                        let cfg_before = read_cfg(rd.config());
                        // the reference reader reads on event by event, counting this name only
                        let mut inner_err: Option<String> = None;
                        let mut inner_fatal = false;
                        let mut depth = 0i64;
                        let mut found_end = false;
                        for _ in 0..2 * plan.doc.len() + 16 {
                            match Out::from(rf.read()) {
                                Out::Err { dbg, class } => {
                                    inner_err = Some(dbg);
                                    inner_fatal = !matches!(class, ErrClass::IllFormed);
                                    break;
                                }
                                Out::Ev(Event::Start(s)) if s.name().as_ref() == &name[..] => depth += 1,
                                Out::Ev(Event::End(s)) if s.name().as_ref() == &name[..] => {
                                    if depth == 0 {
                                        found_end = true;
                                        break;
                                    }
                                    depth -= 1;
                                }
                                Out::Ev(Event::Eof) => break,
                                _ => {}
                            }
                        }
                        let got = rd.skip(&name);
                        let cfg_after = read_cfg(rd.config());
                        if cfg_after != cfg_before {
                            v.push(Violation::new("C12", "config-not-restored", format!("op {}: configuration was [{}] before the call and [{}] after it", oi, cfg_text(cfg_before), cfg_text(cfg_after))));
                            return;
                        }
                        let io_fired = log.borrow().err_fired.map(|(o, _, _)| o as usize == oi).unwrap_or(false);
                        let what = format!("read_to_end(\"{}\") called at position {} inside the open element started by token {}", crate::core::lossy(&name), pos_before, ti);
                        match (&got, &expect, &inner_err, io_fired) {
                            (Err(e), _, _, true) => {
                                fail_paths += 1;
                                if !matches!(e, Error::Io(_)) {
                                    v.push(Violation::new("C12", "skip-failure-wrong", format!("op {}: an I/O error was injected during the skip but it returned {:?}", oi, e)));
                                }
                                return;
                            }
                            (Ok(_), _, _, true) => {
                                v.push(Violation::new("C12", "skip-failure-wrong", format!("op {}: an I/O error was injected during the skip but it returned Ok", oi)));
                                return;
                            }
                            (Err(e), _, Some(want), false) => {
                                fail_paths += 1;
                                if format!("{:?}", e) != *want {
                                    v.push(Violation::new("C12", "skip-failure-wrong", format!("op {}: {}: the content contains an error ({}) but the call returned {:?}", oi, what, want, e)));
                                    return;
                                }
                                if inner_fatal {
                                    return;
                                }
                                if rd.pos() != rf.pos() {
                                    v.push(Violation::new("C12", "wrong-position-after-skip", format!("op {}: after the failed skip the position is {}, the reader that read every event stands at {}", oi, rd.pos(), rf.pos())));
                                    return;
                                }
                                had_failure = true;
                                open_known = false;
                            }
                            (Ok(_), _, Some(want), false) => {
                                v.push(Violation::new("C12", "skip-failure-wrong", format!("op {}: {}: the content contains an error ({}) but the call returned Ok", oi, what, want)));
                                return;
                            }
                            (Err(_), None, None, false) => {
                                fail_paths += 1;
                                return;
                            }
                            (Ok(g), None, None, false) => {
                                v.push(Violation::new("C12", "skip-failure-wrong", format!("op {}: {}: the end tag is not in the input but the call returned Ok({:?})", oi, what, g)));
                                return;
                            }
                            (Err(e), Some(_), None, false) => {
                                v.push(Violation::new("C12", "skip-failed", format!("op {}: {} failed with {:?} although the end tag is present", oi, what, e)));
                                return;
                            }
                            (Ok(span), Some((want_end, want_pos)), None, false) => {
                                if span.1 != *want_end || rd.pos() != *want_pos {
                                    v.push(Violation::new(
                                        "C12",
                                        "wrong-span",
                                        format!("op {}: {}: returned span {:?} and stands at {}; the end tag that closes the innermost open <{}> is at {}..{}", oi, what, span, rd.pos(), crate::core::lossy(&name), want_end, want_pos),
                                    ));
                                    return;
                                }
                                if !pseudo && (!found_end || rf.pos() != *want_pos) {
                                    v.push(Violation::new("C12", "model-desync", format!("op {}: the reference reader did not arrive at the end tag (found_end={}, position {} vs {})", oi, found_end, rf.pos(), want_pos)));
                                    return;
                                }
                                nontrivial = true;
                                open.truncate(e);
                            }
                        }
                        last_start = None;
                        continue;
                    }
                }
                if let Op::Flip { bit, on } = op {
                    if *on {
                        cfg |= *bit;
                    } else {
                        cfg &= !*bit;
                    }
                    apply_cfg(rd.config_mut(), cfg);
                    apply_cfg(rf.config_mut(), cfg);
                    flips += 1;
                    continue;
                }
                let do_skip = matches!(op, Op::Skip | Op::ReadText) && last_start.is_some();
                if !do_skip {
                    let o = Out::from(rd.read());
                    let (pos, epos) = (rd.pos(), rd.epos());
                    if let Out::Err { class: ErrClass::Io { .. }, .. } = &o {
                        if log.borrow().err_fired.is_some() {
                            return; // injected error during a plain read: C18's business
                        }
                    }
                    let want = Out::from(rf.read());
                    let (wpos, wepos) = (rf.pos(), rf.epos());
                    digest = digest.wrapping_mul(31).wrapping_add(pos ^ (epos << 20));
                    if want != o || wpos != pos || wepos != epos {
                        v.push(Violation::new(
                            "C12",
                            "event-after-skip-differs",
                            format!(
                                "op {} (Read): a reader that read every event gives [{} pos={} errpos={}], the reader that skipped gives [{} pos={} errpos={}] ({} skips before)",
                                oi,
                                want.short(),
                                wpos,
                                wepos,
                                o.short(),
                                pos,
                                epos,
                                skips
                            ),
                        ));
                        return;
                    }
                    last_start = match &o {
                        Out::Ev(Event::Start(s)) => Some((s.name().as_ref().to_vec(), pos)),
                        _ => None,
                    };
                    match &o {
                        Out::Ev(Event::Start(_)) => match (0..toks.len()).find(|&t| sp[t].1 as u64 == pos && matches!(toks[t].k, TK::Start | TK::Empty)) {
                            Some(t) => open.push(t),
                            None => open_known = false,
                        },
                        Out::Ev(Event::End(_)) => {
                            let stray = (0..toks.len()).any(|t| sp[t].1 as u64 == pos && toks[t].k == TK::End && !toks[t].attrs.is_empty());
                            if !stray && open.pop().is_none() {
                                open_known = false;
                            }
                        }
                        Out::Err { .. } => open_known = false,
                        _ => {}
                    }
                    if o.is_eof() || matches!(o, Out::Err { class: ErrClass::Syntax, .. }) {
                        return;
                    }
                    continue;
                }
                // ---- skip the element whose Start was just returned ----
                let (name, start_pos) = last_start.take().unwrap();
                // on success its end tag is consumed; on failure the stack is given up below
                if open.pop().is_none() {
                    open_known = false;
                }
                skips += 1;
                if had_failure {
                    skips_after_failure += 1;
                }
                let cfg_before = read_cfg(rd.config());
                if cfg_before != cfg {
                    v.push(Violation::new("C12", "config-not-restored", format!("op {}: configuration is [{}] but the caller last set [{}]", oi, cfg_text(cfg_before), cfg_text(cfg))));
                    return;
                }
                // token of that Start: its end offset is the position after the event
                let ti = match (0..toks.len()).find(|&t| sp[t].1 as u64 == start_pos && matches!(toks[t].k, TK::Start | TK::Empty)) {
                    Some(t) => t,
                    None => {
                        v.push(Violation::new("C12", "model-desync", format!("op {}: no start tag ends at position {}", oi, start_pos)));
                        return;
                    }
                };
                // (expected span, position after the skip)
                let expect: Option<((u64, u64), u64)> = if toks[ti].k == TK::Empty {
                    Some(((start_pos, start_pos), start_pos))
                } else {
                    match mt[ti] {
                        Some(m) if sp[m].1 <= eff_len => Some(((sp[ti].1 as u64, sp[m].0 as u64), sp[m].1 as u64)),
                        _ => None, // end tag missing or cut off: failure path
                    }
                };
                // the reference reader walks through the element event by event
                let mut inner_err: Option<String> = None;
                let mut inner_fatal = false;
                let mut depth = 0i64;
                let mut found_end = false;
                let walk_budget = 2 * plan.doc.len() + 16;
                for _ in 0..walk_budget {
                    match Out::from(rf.read()) {
                        Out::Err { dbg, class } => {
                            inner_err = Some(dbg);
                            inner_fatal = !matches!(class, ErrClass::IllFormed);
                            break;
                        }
                        Out::Ev(Event::Start(s)) if s.name().as_ref() == &name[..] => depth += 1,
                        Out::Ev(Event::End(e)) if e.name().as_ref() == &name[..] => {
                            if depth == 0 {
                                found_end = true;
                                break;
                            }
                            depth -= 1;
                        }
                        Out::Ev(Event::Eof) => break,
                        _ => {}
                    }
                }
                let text_mode = matches!(op, Op::ReadText);
                let got: Result<((u64, u64), Option<String>), Error> = if text_mode {
                    // read_text does not return the span: the text itself is compared below
                    match rd.read_text(&name).unwrap() {
                        Ok(s) => Ok(((0, 0), Some(s))),
                        Err(e) => Err(e),
                    }
                } else {
                    rd.skip(&name).map(|s| (s, None))
                };
                let cfg_after = read_cfg(rd.config());
                if cfg_after != cfg_before {
                    v.push(Violation::new(
                        "C12",
                        "config-not-restored",
                        format!(
                            "op {}: configuration was [{}] before the call and [{}] after it (result: {})",
                            oi,
                            cfg_text(cfg_before),
                            cfg_text(cfg_after),
                            if got.is_ok() { "Ok" } else { "Err" }
                        ),
                    ));
                    return;
                }
                let io_fired = log.borrow().err_fired.map(|(o, _, _)| o as usize == oi).unwrap_or(false);
                match (&got, &expect, &inner_err, io_fired) {
                    (Err(e), _, _, true) => {
                        fail_paths += 1;
                        if !matches!(e, Error::Io(_)) {
                            v.push(Violation::new("C12", "skip-failure-wrong", format!("op {}: an I/O error was injected during the skip but it returned {:?}", oi, e)));
                        }
                        return;
                    }
                    (Ok(_), _, _, true) => {
                        v.push(Violation::new("C12", "skip-failure-wrong", format!("op {}: an I/O error was injected during the skip but it returned Ok", oi)));
                        return;
                    }
                    (Err(e), _, Some(want), false) => {
                        fail_paths += 1;
                        if format!("{:?}", e) != *want {
                            v.push(Violation::new("C12", "skip-failure-wrong", format!("op {}: element contains an error ({}) but the skip returned {:?}", oi, want, e)));
                            return;
                        }
                        if inner_fatal {
                            return;
                        }
                        // a recoverable (ill-formedness) error: both readers stand right
                        // after the offending markup; the history goes on
                        if rd.pos() != rf.pos() {
                            v.push(Violation::new("C12", "wrong-position-after-skip", format!("op {}: after the failed skip the position is {}, the reader that read every event stands at {}", oi, rd.pos(), rf.pos())));
                            return;
                        }
                        had_failure = true;
                        open_known = false;
                    }
                    (Ok(_), _, Some(want), false) => {
                        v.push(Violation::new("C12", "skip-failure-wrong", format!("op {}: element contains an error ({}) but the skip returned Ok", oi, want)));
                        return;
                    }
                    (Err(_), None, None, false) => {
                        // end tag missing / truncated: an error is what is expected
                        fail_paths += 1;
                        return;
                    }
                    (Ok(g), None, None, false) => {
                        v.push(Violation::new("C12", "skip-failure-wrong", format!("op {}: the element's end tag is not in the input but the call returned Ok({:?})", oi, g.0)));
                        return;
                    }
                    (Err(e), Some((want_span, _)), None, false) => {
                        // read_text over bytes that the encoding in force cannot decode fails by
                        // design (the element itself was consumed): not a C12 matter
                        let span_bytes = &plan.doc[want_span.0 as usize..want_span.1 as usize];
                        if text_mode && matches!(e, Error::Encoding(_)) && rd.decoder().decode(span_bytes).is_err() {
                            fail_paths += 1;
                            return;
                        }
                        v.push(Violation::new("C12", "skip-failed", format!("op {}: skipping <{}> failed with {:?} although its end tag is present", oi, String::from_utf8_lossy(&name), e)));
                        return;
                    }
                    (Ok((span, text)), Some((want_span, want_pos)), None, false) => {
                        if !text_mode && span != want_span {
                            v.push(Violation::new(
                                "C12",
                                "wrong-span",
                                format!(
                                    "op {}: skipping <{}> started at {}: returned span {:?}, the element's content is {:?}",
                                    oi,
                                    crate::core::lossy(&name),
                                    start_pos,
                                    span,
                                    want_span
                                ),
                            ));
                            return;
                        }
                        if let Some(t) = text {
                            // "the input text of that span": decoded with the encoding in force after the call
                            let span_bytes = &plan.doc[want_span.0 as usize..want_span.1 as usize];
                            let want = rd.decoder().decode(span_bytes).map(|c| c.into_owned()).unwrap_or_else(|_| String::from_utf8_lossy(span_bytes).into_owned());
                            if *t != want {
                                v.push(Violation::new("C12", "wrong-text", format!("op {}: read_text returned {:?}, the input text of the span is {:?}", oi, crate::core::lossy(t.as_bytes()), crate::core::lossy(want.as_bytes()))));
                                return;
                            }
                        }
                        if rd.pos() != *want_pos {
                            v.push(Violation::new("C12", "wrong-position-after-skip", format!("op {}: position after the skip is {}, the end tag ends at {}", oi, rd.pos(), want_pos)));
                            return;
                        }
                        if !found_end || rf.pos() != *want_pos {
                            v.push(Violation::new("C12", "model-desync", format!("op {}: the reference reader did not arrive at the end tag (found_end={}, position {} vs {})", oi, found_end, rf.pos(), want_pos)));
                            return;
                        }
                        // nested same-name element or look-alike end tag inside?
                        if toks[ti].k == TK::Start {
                            let m = mt[ti].unwrap();
                            let inner = &plan.doc[sp[ti].1..sp[m].0];
                            let needle = format!("</{}", String::from_utf8_lossy(&name));
                            if inner.windows(needle.len()).any(|w| w == needle.as_bytes()) {
                                nontrivial = true;
                            }
                        }
                    }
                }
            }
        });
        st.executions += 2;
        {
            let l = log.borrow();
            st.note_schedule(trace_hash(&l.trace));
            st.add("fault.eintr", l.fired_eintr as u64);
            st.add("fault.pending", l.fired_pending as u64);
            st.add("fault.io_error", l.fired_err as u64);
            if l.hit_trunc_eof {
                st.bump("fault.early_eof");
            }
        }
        st.add("op.skip", skips);
        st.add("op.skip_with_name_of_enclosing_element", skips_up);
        st.add("op.skip_failure_path", fail_paths);
        st.add("op.skip_after_an_earlier_failed_skip", skips_after_failure);
        st.add("op.flip", flips);
        st.bump(&format!("source.{}", plan.stream.kind.name()));
        if let Err(p) = res {
            panic_to_violation(&p, plan, "skip run", "C03", &mut out);
        }
        out.extend(v);
        st.note_distinct(plan.hash64(), (nontrivial || fail_paths > 0 || flips > 0) && skips > 0);
        st.fold_digest(plan.run, crate::plan::fnv_bytes(format!("{:?}{}", out.iter().map(|v| &v.kind).collect::<Vec<_>>(), skips).as_bytes()) ^ digest);
        out
    }
}

// =================================================================================
// ns (C05)

pub struct Ns;

const XML_URI: &[u8] = b"http://www.w3.org/XML/1998/namespace";
const XMLNS_URI: &[u8] = b"http://www.w3.org/2000/xmlns/";
const XSI_URI: &[u8] = b"http://www.w3.org/2001/XMLSchema-instance";
const PROBE_PREFIXES: &[&str] = &["", "p", "q", "r", "xml", "xmlns", "z", "pq", "pp", "xmlx", "x"];

#[derive(Clone, Debug, Default)]
struct Scope {
    /// (prefix or "" for default, uri) declared by one element
    decls: Vec<(String, String)>,
}

/// "the xml and xmlns prefixes are pre-bound and protected": the first declaration of
/// a start tag that tries to rebind them (or to bind another prefix to their
/// namespaces) must be refused with the matching error
fn illegal_decl(t: &Tok) -> Option<String> {
    for (k, v) in &t.attrs {
        if let Some(p) = k.strip_prefix("xmlns:") {
            if p == "xml" {
                if v.as_bytes() != XML_URI {
                    return Some(format!("{:?}", Error::Namespace(NamespaceError::InvalidXmlPrefixBind(v.as_bytes().to_vec()))));
                }
            } else if p == "xmlns" {
                return Some(format!("{:?}", Error::Namespace(NamespaceError::InvalidXmlnsPrefixBind(v.as_bytes().to_vec()))));
            } else if v.as_bytes() == XML_URI {
                return Some(format!("{:?}", Error::Namespace(NamespaceError::InvalidPrefixForXml(p.as_bytes().to_vec()))));
            } else if v.as_bytes() == XMLNS_URI {
                return Some(format!("{:?}", Error::Namespace(NamespaceError::InvalidPrefixForXmlns(p.as_bytes().to_vec()))));
            }
        }
    }
    None
}

fn decls_of(t: &Tok) -> Scope {
    let mut s = Scope::default();
    for (k, v) in &t.attrs {
        if k == "xmlns" {
            s.decls.push((String::new(), v.clone()));
        } else if let Some(p) = k.strip_prefix("xmlns:") {
            if p != "xml" {
                // a (legal) re-statement of the xml prefix adds nothing
                s.decls.push((p.to_string(), v.clone()));
            }
        }
    }
    s
}

fn model_resolve(stack: &[Scope], prefix: &str, attribute: bool) -> Res {
    if prefix == "xml" {
        return Res::Bound(XML_URI.to_vec());
    }
    if prefix == "xmlns" {
        return Res::Bound(XMLNS_URI.to_vec());
    }
    if prefix.is_empty() && attribute {
        return Res::Unbound;
    }
    for sc in stack.iter().rev() {
        // within one element a later declaration of the same prefix cannot occur (generator)
        for (p, u) in sc.decls.iter().rev() {
            if p == prefix {
                return if u.is_empty() {
                    if prefix.is_empty() {
                        Res::Unbound
                    } else {
                        Res::Unknown(prefix.as_bytes().to_vec())
                    }
                } else {
                    Res::Bound(u.as_bytes().to_vec())
                };
            }
        }
    }
    if prefix.is_empty() {
        Res::Unbound
    } else {
        Res::Unknown(prefix.as_bytes().to_vec())
    }
}

fn model_prefixes(stack: &[Scope]) -> BTreeSet<(Vec<u8>, Vec<u8>)> {
    let mut seen: BTreeSet<String> = BTreeSet::new();
    let mut out = BTreeSet::new();
    for sc in stack.iter().rev() {
        for (p, u) in sc.decls.iter().rev() {
            if seen.insert(p.clone()) && !u.is_empty() {
                out.insert((p.as_bytes().to_vec(), u.as_bytes().to_vec()));
            }
        }
    }
    out
}

/// rename one namespace prefix consistently to a very long one; the tags that use it
/// are re-rendered from their name and attribute list
fn stretch_prefix(rng: &mut Rng, toks: &mut [Tok]) -> String {
    let old = *rng.pick(&["p", "q", "r"]);
    let new = format!("{}{}", old, "x".repeat(*rng.pick(&[30usize, 254, 255, 256, 300])));
    let rn = |name: &str| -> String {
        match name.split_once(':') {
            Some((p, l)) if p == old => format!("{}:{}", new, l),
            _ => name.to_string(),
        }
    };
    let mut touched = 0;
    for t in toks.iter_mut() {
        if !matches!(t.k, TK::Start | TK::Empty | TK::End) {
            continue;
        }
        let uses = t.name.starts_with(&format!("{}:", old))
            || t.attrs.iter().any(|(k, _)| k.starts_with(&format!("{}:", old)) || *k == format!("xmlns:{}", old));
        if !uses {
            continue;
        }
        touched += 1;
        t.name = rn(&t.name);
        for (k, _) in t.attrs.iter_mut() {
            if *k == format!("xmlns:{}", old) {
                *k = format!("xmlns:{}", new);
            } else {
                *k = rn(k);
            }
        }
        let mut raw = String::new();
        match t.k {
            TK::End => raw.push_str(&format!("</{}>", t.name)),
            _ => {
                raw.push_str(&format!("<{}", t.name));
                for (k, v) in &t.attrs {
                    let q = if v.contains('"') { '\'' } else { '"' };
                    raw.push_str(&format!(" {}={}{}{}", k, q, v, q));
                }
                raw.push_str(if t.k == TK::Empty { "/>" } else { ">" });
            }
        }
        t.raw = raw.into_bytes();
    }
    format!("long-prefix({} bytes, {} tags) ", new.len(), touched)
}

fn prefix_of(name: &str) -> &str {
    match name.find(':') {
        Some(i) => &name[..i],
        None => "",
    }
}

impl Scenario for Ns {
    fn name(&self) -> &'static str {
        "ns"
    }
    fn gen(&self, rng: &mut Rng, base_seed: u64, run: u64, _tier: Tier) -> Plan {
        let mut p = Plan::new("ns", base_seed, run);
        let o = TreeOpts {
            ns: true,
            max_depth: 5,
            max_toks: rng.range(3, 30),
            prolog: rng.chance(1, 3),
            odd_ends: false,
            misc: rng.bool(),
            empty_of_8: 2,
        };
        p.toks = gen_tree(rng, &o);
        if rng.chance(1, 12) {
            p.note = format!("stretched: {}", stretch_tokens(rng, &mut p.toks, true));
        }
        if rng.chance(1, 20) {
            let n = stretch_prefix(rng, &mut p.toks);
            p.note.push_str(&n);
        }
        if rng.chance(1, 15) {
            let idx: Vec<usize> = (0..p.toks.len()).filter(|&i| matches!(p.toks[i].k, TK::Start | TK::Empty)).collect();
            if !idx.is_empty() {
                let i = *rng.pick(&idx);
                let (k, v) = match rng.below(8) {
                    0 => ("xmlns:xml", "u1"),
                    1 => ("xmlns:xmlns", "http://www.w3.org/2000/xmlns/"),
                    2 => ("xmlns:xmlns", "u2"),
                    3 => ("xmlns:q", "http://www.w3.org/XML/1998/namespace"),
                    4 => ("xmlns:r", "http://www.w3.org/2000/xmlns/"),
                    _ => ("xmlns:xml", "http://www.w3.org/XML/1998/namespace"), // legal
                };
                if !p.toks[i].attrs.iter().any(|(ek, _)| ek == k) {
                    let t = &mut p.toks[i];
                    let decl = format!(" {}=\"{}\"", k, v);
                    if rng.bool() {
                        // first attribute: the other declarations of the tag come after it
                        let at = 1 + t.name.len();
                        let mut body = t.raw[..at].to_vec();
                        body.extend_from_slice(decl.as_bytes());
                        body.extend_from_slice(&t.raw[at..]);
                        t.raw = body;
                        t.attrs.insert(0, (k.to_string(), v.to_string()));
                    } else {
                        let close = if t.k == TK::Empty { 2 } else { 1 };
                        let mut body = t.raw[..t.raw.len() - close].to_vec();
                        while body.last().map(|b| is_ws(*b)).unwrap_or(false) {
                            body.pop();
                        }
                        body.extend_from_slice(decl.as_bytes());
                        body.extend_from_slice(if close == 2 { b"/>" } else { b">" });
                        t.raw = body;
                        t.attrs.push((k.to_string(), v.to_string()));
                    }
                    p.note.push_str(" reserved-prefix declaration injected");
                }
            }
        }
        let mut check_comments = 0;
        if rng.chance(1, 8) {
            // recoverable failures in between: with comment checking on, a comment with "--"
            // inside makes that one read fail (IllFormed) and reading goes on after it; the
            // scopes must be the same as if the comment were not there
            check_comments = CFG_CHECK_COMMENTS;
            let first = p.toks.iter().position(|t| matches!(t.k, TK::Start | TK::Empty)).unwrap_or(0);
            for _ in 0..rng.range(1, 3) {
                let at = rng.range(first + 1, p.toks.len().max(first + 1));
                let body = *rng.pick(&[" x -- y ", "--", "a--b", " -"]);
                p.toks.insert(at.min(p.toks.len()), Tok::new(TK::Comment, format!("<!--{}-->", body)));
            }
            p.note.push_str(" ill-formed comments under check_comments");
        }
        p.sync_doc();
        p.cfg = CFG_DEFAULT | check_comments | if rng.bool() { CFG_EXPAND_EMPTY } else { 0 };
        p.reader = ReaderKind::Ns;
        p.stream = gen_hist_stream(rng, &p.doc, 3);
        let n_ops = rng.range(2, 2 * p.toks.len() + 2);
        let skip_share = *rng.pick(&[3usize, 5, 10, 1000]);
        let flip_share = *rng.pick(&[0usize, 0, 0, 8]);
        for _ in 0..n_ops {
            if flip_share > 0 && rng.chance(1, flip_share) {
                p.ops.push(Op::Flip { bit: CFG_EXPAND_EMPTY, on: rng.bool() });
            }
            p.ops.push(if rng.chance(1, skip_share) {
                if p.stream.kind == SourceKind::Slice && rng.chance(1, 3) {
                    Op::ReadText
                } else {
                    Op::Skip
                }
            } else if rng.bool() {
                Op::Read
            } else {
                Op::ReadResolved
            });
        }
        p
    }

    fn exec(&self, plan: &Plan, st: &mut Stats) -> Vec<Violation> {
        let mut out = vec![];
        let shared = Rc::new(plan.doc.clone());
        let toks = &plan.toks;
        let mt = match_table(toks);
        let mut expand = plan.cfg & CFG_EXPAND_EMPTY != 0;
        let log = new_log(refill_budget(plan.doc.len(), &plan.stream) * 2);
        let mut v: Vec<Violation> = vec![];
        // probe the fixed prefixes and every prefix that occurs in the document
        let mut probes: Vec<String> = PROBE_PREFIXES.iter().map(|s| s.to_string()).collect();
        for t in toks.iter() {
            let mut add = |p: &str| {
                if !p.is_empty() && !probes.iter().any(|q| q == p) {
                    probes.push(p.to_string());
                }
            };
            add(prefix_of(&t.name));
            for (k, _) in &t.attrs {
                if let Some(p) = k.strip_prefix("xmlns:") {
                    add(p);
                } else {
                    add(prefix_of(k));
                }
            }
        }
        // a comment that fails under check_comments: "--" in its body, or a body ending in '-'
        let checking = plan.cfg & CFG_CHECK_COMMENTS != 0;
        let bad_comment = |t: &Tok| -> bool {
            if !checking || t.k != TK::Comment || t.raw.len() < 7 {
                return false;
            }
            let body = &t.raw[4..t.raw.len() - 3];
            body.windows(2).any(|w| w == b"--") || body.last() == Some(&b'-')
        };
        let mut recovered = 0u64;
        let mut skips = 0u64;
        let mut reserved_checks = 0u64;
        let mut nil_checks = 0u64;
        let mut nil_true = 0u64;
        let mut mid_skips = 0u64;
        let mut shadow = false;
        let mut decl_seen = false;
        let res = guard(|| {
            let mut rd = Rd::new(&plan.doc, &shared, &plan.stream, plan.reader, plan.cfg, &log, plan.run);
            let mut stack: Vec<Scope> = vec![];
            let mut pending_pop = false;
            let mut ti = 0usize; // next token
            let mut half: Option<usize> = None; // expanded <e/> whose End is still to come
            // token indices of the elements that are open right now (innermost last);
            // "skip current element" may be called at any time while one is open
            let mut open: Vec<usize> = vec![];
            for (oi, op) in plan.ops.iter().enumerate() {
                log.borrow_mut().cur_op = oi as u32;
                if let Op::Flip { bit, on } = op {
                    // only the expansion switch is flipped in this scenario; it applies to
                    // the tags read from now on (a half-delivered <e/> still gets its End)
                    if *bit == CFG_EXPAND_EMPTY {
                        expand = *on;
                        rd.config_mut().expand_empty_elements = *on;
                    }
                    continue;
                }
                if pending_pop {
                    stack.pop();
                    pending_pop = false;
                }
                let do_skip = matches!(op, Op::Skip | Op::ReadText) && !open.is_empty();
                if do_skip {
                    let t = open.pop().unwrap();
                    skips += 1;
                    if ti > t + 1 && half.is_none() {
                        mid_skips += 1;
                    }
                    let name = toks[t].name.as_bytes().to_vec();
                    let r = if matches!(op, Op::ReadText) { rd.read_text(&name).unwrap().map(|_| ()) } else { rd.skip(&name).map(|_| ()) };
                    if let Err(e) = r {
                        let upto = if toks[t].k == TK::Empty { ti } else { mt[t].unwrap_or(toks.len()) };
                        if toks[ti.min(upto)..upto].iter().any(|x| bad_comment(x)) && matches!(e, Error::IllFormed(IllFormedError::DoubleHyphenInComment)) {
                            // the skipped content holds an ill-formed comment: the call fails by
                            // design and nothing is said about the scopes after a failed skip
                            return;
                        }
                        v.push(Violation::new("C05", "skip-failed", format!("op {}: skipping <{}> failed: {:?}", oi, toks[t].name, e)));
                        return;
                    }
                    // the element has ended: its declarations stop applying now
                    stack.pop();
                    if toks[t].k == TK::Empty {
                        half = None;
                    } else {
                        ti = mt[t].expect("well-nested") + 1;
                    }
                } else {
                    // ---- the model's next event ----
                    #[derive(Debug)]
                    enum Want {
                        Start(usize),
                        Empty(usize),
                        End(String),
                        Other,
                        /// a comment that makes this one read fail; reading goes on after it
                        BadComment,
                        Eof,
                    }
                    let want = if let Some(h) = half.take() {
                        Want::End(toks[h].name.clone())
                    } else if ti >= toks.len() {
                        Want::Eof
                    } else {
                        let t = ti;
                        ti += 1;
                        match toks[t].k {
                            TK::Start => Want::Start(t),
                            TK::Empty => {
                                if expand {
                                    half = Some(t);
                                    Want::Start(t)
                                } else {
                                    Want::Empty(t)
                                }
                            }
                            TK::End => Want::End(toks[t].name.clone()),
                            _ if bad_comment(&toks[t]) => Want::BadComment,
                            _ => Want::Other,
                        }
                    };
                    let resolved = matches!(op, Op::ReadResolved);
                    let (got_res, ev) = if resolved {
                        match rd.read_resolved() {
                            Ok((r, e)) => (r, Ok(e)),
                            Err(e) => (None, Err(e)),
                        }
                    } else {
                        (None, rd.read())
                    };
                    let want_err = match &want {
                        Want::Start(t) | Want::Empty(t) => illegal_decl(&toks[*t]),
                        _ => None,
                    };
                    if let Some(we) = want_err {
                        reserved_checks += 1;
                        match &ev {
                            Err(e) if format!("{:?}", e) == we => {}
                            other => v.push(Violation::new(
                                "C05",
                                "reserved-prefix-not-protected",
                                format!("op {}: <{}> carries an illegal declaration, expected error {}, got {:?}", oi, match &want { Want::Start(t) | Want::Empty(t) => toks[*t].name.as_str(), _ => "" }, we, other),
                            )),
                        }
                        return; // nothing is promised about the state after the error
                    }
                    if matches!(want, Want::BadComment) {
                        match &ev {
                            Err(Error::IllFormed(IllFormedError::DoubleHyphenInComment)) => recovered += 1,
                            other => {
                                v.push(Violation::new("C05", "event-desync", format!("op {}: model expects the ill-formed comment to fail this read, reader returned {:?}", oi, other)));
                                return;
                            }
                        }
                    }
                    let ev = match ev {
                        Ok(e) => e,
                        // the failed read changed nothing: the probes below see the same scopes
                        Err(_) if matches!(want, Want::BadComment) => Event::Comment(quick_xml::events::BytesText::new("")),
                        Err(e) => {
                            v.push(Violation::new("C05", "unexpected-error", format!("op {}: well-formed document, model expects {:?}, reader returned {:?}", oi, want, e)));
                            return;
                        }
                    };
                    // update the model and check that the reader is where the model is
                    let (ok, elem_name): (bool, Option<String>) = match (&want, &ev) {
                        (Want::Start(t), Event::Start(s)) if s.name().as_ref() == toks[*t].name.as_bytes() => {
                            let sc = decls_of(&toks[*t]);
                            for (p, _) in &sc.decls {
                                decl_seen = true;
                                if stack.iter().any(|s| s.decls.iter().any(|(q, _)| q == p)) {
                                    shadow = true;
                                }
                            }
                            stack.push(sc);
                            open.push(*t);
                            (true, Some(toks[*t].name.clone()))
                        }
                        (Want::Empty(t), Event::Empty(s)) if s.name().as_ref() == toks[*t].name.as_bytes() => {
                            let sc = decls_of(&toks[*t]);
                            if !sc.decls.is_empty() {
                                decl_seen = true;
                            }
                            stack.push(sc);
                            pending_pop = true;
                            (true, Some(toks[*t].name.clone()))
                        }
                        (Want::End(n), Event::End(e)) if e.name().as_ref() == n.as_bytes() => {
                            open.pop();
                            pending_pop = true;
                            (true, Some(n.clone()))
                        }
                        (Want::Other, Event::Text(_) | Event::Comment(_) | Event::CData(_) | Event::PI(_) | Event::Decl(_) | Event::DocType(_)) => (true, None),
                        (Want::BadComment, _) => (true, None),
                        (Want::Eof, Event::Eof) => (true, None),
                        _ => (false, None),
                    };
                    if !ok {
                        v.push(Violation::new("C05", "event-desync", format!("op {}: model expects {:?}, reader returned {:?}", oi, want, ev)));
                        return;
                    }
                    // the event's own attributes: each name resolved in the scope that now
                    // includes the element's declarations, and the xsi:nil test built on it
                    if let (Want::Start(t) | Want::Empty(t), Event::Start(bs) | Event::Empty(bs)) = (&want, &ev) {
                        let mut want_nil = false;
                        for (k, val) in &toks[*t].attrs {
                            let is_decl = k == "xmlns" || k.starts_with("xmlns:");
                            let want_res = if is_decl {
                                // `xmlns:p` is itself a name with prefix `xmlns`; a bare `xmlns` is unprefixed
                                if k == "xmlns" { Res::Unbound } else { Res::Bound(XMLNS_URI.to_vec()) }
                            } else {
                                model_resolve(&stack, prefix_of(k), true)
                            };
                            let got = rd.resolve(k.as_bytes(), true).unwrap();
                            if got.0 != want_res {
                                v.push(Violation::new(
                                    "C05",
                                    "wrong-resolution",
                                    format!("op {}: attribute {:?} of <{}>: resolve_attribute = {:?}, declarations in scope give {:?}", oi, k, toks[*t].name, got.0, want_res),
                                ));
                                return;
                            }
                            let local = k.rsplit(':').next().unwrap_or("");
                            if !is_decl && local == "nil" && want_res == Res::Bound(XSI_URI.to_vec()) && (val == "true" || val == "1") {
                                want_nil = true;
                            }
                        }
                        nil_checks += 1;
                        if rd.has_nil(bs) != Some(want_nil) {
                            v.push(Violation::new(
                                "C05",
                                "wrong-resolution",
                                format!("op {}: has_nil() of <{}> = {:?}, attributes and declarations in scope give {}", oi, toks[*t].name, rd.has_nil(bs), want_nil),
                            ));
                            return;
                        }
                        if want_nil {
                            nil_true += 1;
                        }
                    }
                    if resolved && !matches!(want, Want::BadComment) {
                        let want_res = match &elem_name {
                            Some(n) => model_resolve(&stack, prefix_of(n), false),
                            None => Res::Unbound,
                        };
                        if got_res.as_ref() != Some(&want_res) {
                            v.push(Violation::new(
                                "C05",
                                "wrong-resolution",
                                format!("op {}: read_resolved_event gave {:?} for {:?}, declarations in scope give {:?}", oi, got_res, ev, want_res),
                            ));
                            return;
                        }
                    }
                    if matches!(ev, Event::Eof) {
                        // scope must be empty at the end of a well-formed document
                        if pending_pop {
                            stack.pop();
                            pending_pop = false;
                        }
                    }
                }
                // ---- probes after every operation ----
                for pf in probes.iter().map(|s| s.as_str()) {
                    for attribute in [false, true] {
                        let name = if pf.is_empty() { "n".to_string() } else { format!("{}:n", pf) };
                        let want = model_resolve(&stack, pf, attribute);
                        let got = rd.resolve(name.as_bytes(), attribute).unwrap();
                        if got.0 != want || got.1 != b"n" {
                            v.push(Violation::new(
                                "C05",
                                "wrong-resolution",
                                format!(
                                    "after op {} ({:?}): resolve_{}({:?}) = {:?}, declarations in scope give {:?} ({} skips so far)",
                                    oi,
                                    op,
                                    if attribute { "attribute" } else { "element" },
                                    name,
                                    got.0,
                                    want,
                                    skips
                                ),
                            ));
                            return;
                        }
                    }
                }
                // "the in-scope prefix listing agrees with this": every binding in scope exactly
                // once (the order of the listing is not part of the property)
                let listed: Vec<(Vec<u8>, Vec<u8>)> = rd.prefixes().unwrap();
                let got: BTreeSet<(Vec<u8>, Vec<u8>)> = listed.iter().cloned().collect();
                let want = model_prefixes(&stack);
                if got.len() != listed.len() {
                    let mut l = listed.clone();
                    l.sort();
                    v.push(Violation::new(
                        "C05",
                        "wrong-prefix-listing",
                        format!(
                            "after op {} ({:?}): prefixes() lists a binding more than once: [{}]",
                            oi,
                            op,
                            l.iter().map(|(p, u)| format!("{}={}", String::from_utf8_lossy(p), String::from_utf8_lossy(u))).collect::<Vec<_>>().join(",")
                        ),
                    ));
                    return;
                }
                if got != want {
                    let show = |s: &BTreeSet<(Vec<u8>, Vec<u8>)>| {
                        s.iter().map(|(p, u)| format!("{}={}", String::from_utf8_lossy(p), String::from_utf8_lossy(u))).collect::<Vec<_>>().join(",")
                    };
                    v.push(Violation::new(
                        "C05",
                        "wrong-prefix-listing",
                        format!("after op {} ({:?}): prefixes() lists [{}], in scope are [{}] ({} skips so far)", oi, op, show(&got), show(&want), skips),
                    ));
                    return;
                }
            }
        });
        st.executions += 1;
        {
            let l = log.borrow();
            st.note_schedule(trace_hash(&l.trace));
            st.add("fault.pending", l.fired_pending as u64);
        }
        st.add("op.skip", skips);
        st.add("op.skip_after_children_were_read", mid_skips);
        st.add("model.reserved_prefix_errors_checked", reserved_checks);
        st.add("model.reads_failed_on_ill_formed_comment_and_went_on", recovered);
        st.add("model.has_nil_checked", nil_checks);
        st.add("model.has_nil_true", nil_true);
        st.bump(&format!("source.{}", plan.stream.kind.name()));
        if let Err(p) = res {
            panic_to_violation(&p, plan, "ns run", "C03", &mut out);
        }
        out.extend(v);
        st.note_distinct(plan.hash64(), decl_seen && (skips > 0 || shadow));
        st.fold_digest(plan.run, crate::plan::fnv_bytes(format!("{:?}{}", out.iter().map(|v| &v.detail).collect::<Vec<_>>(), skips).as_bytes()));
        out
    }
}

// =================================================================================
// nest (C04)

pub struct Nest;

const NEST_NAMES: &[&str] = &["a", "ab", "b", "a:b"];
const NEST_BITS: [u8; 4] = [CFG_ALLOW_UNMATCHED, CFG_CHECK_END_NAMES, CFG_EXPAND_EMPTY, CFG_TRIM_NAMES];

impl Scenario for Nest {
    fn name(&self) -> &'static str {
        "nest"
    }
    fn gen(&self, rng: &mut Rng, base_seed: u64, run: u64, _tier: Tier) -> Plan {
        let mut p = Plan::new("nest", base_seed, run);
        let n = rng.range(1, 24);
        let mut toks: Vec<Tok> = vec![];
        let mut open: Vec<&str> = vec![];
        for _ in 0..n {
            let name = *rng.pick(NEST_NAMES);
            let t = match rng.below(16) {
                0..=4 => {
                    open.push(name);
                    tok_start(rng, name, false)
                }
                5..=7 => {
                    // mostly the matching end tag, sometimes another one
                    let nm = if rng.chance(3, 4) { open.pop().unwrap_or(name) } else { name };
                    let mut e = tok_end(rng, nm, true);
                    if rng.chance(1, 5) {
                        e.raw = format!("</{}{}>", nm, rng.pick(&[" ", "\n", "  ", "\t"])).into_bytes();
                    } else if rng.chance(1, 12) {
                        // bytes that look like blanks but are not XML whitespace: they belong to the name
                        e.raw = format!("</{}{}>", nm, rng.pick(&["\u{c}", "\u{b}", "\u{a0}", "\u{85}", " \u{c}", "\u{c} ", "\u{2028}", "\u{0}"])).into_bytes();
                    }
                    e
                }
                8 | 9 => {
                    let nm = if rng.bool() { open.pop().unwrap_or(name) } else { name };
                    tok_end(rng, nm, true)
                }
                10 | 11 => tok_empty(rng, name, false),
                12 => {
                    if toks.last().map(|l| l.k) == Some(TK::Text) {
                        tok_comment(rng)
                    } else {
                        tok_text(rng)
                    }
                }
                13 => tok_comment(rng),
                14 => tok_cdata(rng),
                _ => tok_pi(rng),
            };
            toks.push(t);
        }
        if rng.chance(1, 12) {
            p.note = format!("stretched: {}", stretch_tokens(rng, &mut toks, false));
        }
        let deep = rng.chance(1, 4000);
        if deep || rng.chance(1, 100) {
            // many simultaneously open elements with long names: the shared name buffer
            // grows past 64 KiB before the generated tokens are judged; rarely, more than
            // 4096 open elements with one-byte names (depth counters, depth caps)
            if deep {
                // (few inner tokens: every ambiguous step copies the candidate stacks)
                toks.truncate(6);
            }
            let (d, l) = if deep { (*rng.pick(&[4100usize, 4200, 5000]), 0usize) } else { *rng.pick(&[(70usize, 1000usize), (300, 230), (40, 1700)]) };
            let name = format!("w{}", "n".repeat(l));
            let mut pre: Vec<Tok> = (0..d)
                .map(|_| Tok { k: TK::Start, raw: format!("<{}>", name).into_bytes(), name: name.clone(), attrs: vec![] })
                .collect();
            pre.append(&mut toks);
            for _ in 0..d {
                pre.push(Tok { k: TK::End, raw: format!("</{}>", name).into_bytes(), name: name.clone(), attrs: vec![] });
            }
            toks = pre;
            p.note.push_str(&format!(" wrapped in {} open elements with {}-byte names", d, l + 1));
        }
        if rng.chance(1, 8) {
            // a document in a declared single-byte encoding with non-ASCII element names
            // (bytes 0xE0/0xE1 are two Cyrillic letters in windows-1251): names are matched as
            // bytes, and the error must name both tags as the reader's decoder renders them
            for t in toks.iter_mut() {
                if matches!(t.k, TK::Start | TK::End | TK::Empty) {
                    for b in t.raw.iter_mut() {
                        match *b {
                            b'a' => *b = 0xE0,
                            b'b' => *b = 0xE1,
                            _ => {}
                        }
                    }
                }
            }
            let decl = "<?xml version=\"1.0\" encoding=\"windows-1251\"?>";
            toks.insert(0, Tok { k: TK::Decl, raw: decl.as_bytes().to_vec(), name: String::new(), attrs: vec![] });
            p.note.push_str(" names as windows-1251 bytes");
        }
        p.toks = toks;
        p.sync_doc();
        let mut cfg = 0u8;
        for b in NEST_BITS {
            if rng.bool() {
                cfg |= b;
            }
        }
        p.cfg = cfg;
        p.reader = if rng.chance(1, 6) { ReaderKind::Ns } else { ReaderKind::Plain };
        p.stream = gen_hist_stream(rng, &p.doc, 2);
        let flips = *rng.pick(&[0usize, 1, 2, 4, 8]);
        let reads = 2 * p.toks.len() + 3;
        let mut flip_at: Vec<usize> = (0..flips).map(|_| rng.below(reads)).collect();
        flip_at.sort_unstable();
        for i in 0..reads {
            for _ in flip_at.iter().filter(|&&f| f == i) {
                let bit = *rng.pick(&NEST_BITS);
                p.ops.push(Op::Flip { bit, on: rng.bool() });
            }
            p.ops.push(Op::Read);
        }
        p
    }

    fn exec(&self, plan: &Plan, st: &mut Stats) -> Vec<Violation> {
        let mut out = vec![];
        let shared = Rc::new(plan.doc.clone());
        let toks = &plan.toks;
        let log = new_log(refill_budget(plan.doc.len(), &plan.stream) * 2);
        let mut v: Vec<Violation> = vec![];
        let mut nontrivial = false;
        let mut ambiguous = 0u64;
        let mut judged = 0u64;
        let mut overflow = false;
        let res = guard(|| {
            let mut rd = Rd::new(&plan.doc, &shared, &plan.stream, plan.reader, plan.cfg, &log, plan.run);
            let mut cfg = plan.cfg;
            // candidate stacks hold interned name ids (cheap to clone and compare)
            let mut interned: Vec<Vec<u8>> = vec![];
            let mut intern = |n: &[u8], tab: &mut Vec<Vec<u8>>| -> u32 {
                match tab.iter().position(|x| x == n) {
                    Some(i) => i as u32,
                    None => {
                        tab.push(n.to_vec());
                        (tab.len() - 1) as u32
                    }
                }
            };
            // name of a start tag as written: the bytes after '<' up to a blank, '/' or '>'
            fn start_name(raw: &[u8]) -> &[u8] {
                let body = &raw[1..];
                let end = body.iter().position(|&b| is_ws(b) || b == b'/' || b == b'>').unwrap_or(body.len());
                &body[..end]
            }
            let mut cands: Vec<Vec<u32>> = vec![vec![]];
            let mut ti = 0usize;
            let mut half: Option<Vec<u8>> = None;
            let _ = &mut intern;
            let mut flipped = false;
            for (oi, op) in plan.ops.iter().enumerate() {
                log.borrow_mut().cur_op = oi as u32;
                if let Op::Flip { bit, on } = op {
                    if *on {
                        cfg |= *bit;
                    } else {
                        cfg &= !*bit;
                    }
                    apply_cfg(rd.config_mut(), cfg);
                    flipped = true;
                    continue;
                }
                let got = Out::from(rd.read());
                // ---- what may this call return? ----
                if let Some(n) = half.take() {
                    // second half of an expanded <e/>: always its End
                    let ok = matches!(&got, Out::Ev(Event::End(e)) if e.name().as_ref() == &n[..]);
                    if !ok {
                        v.push(Violation::new("C04", "wrong-outcome", format!("op {}: expected the End of expanded <{}/>, got {}", oi, String::from_utf8_lossy(&n), got.short())));
                        return;
                    }
                    for c in cands.iter_mut() {
                        c.pop();
                    }
                    continue;
                }
                if ti >= toks.len() {
                    if !got.is_eof() {
                        v.push(Violation::new("C04", "wrong-outcome", format!("op {}: input exhausted, got {}", oi, got.short())));
                    }
                    return;
                }
                let t = &toks[ti];
                ti += 1;
                match t.k {
                    TK::Start => {
                        let ok = matches!(&got, Out::Ev(Event::Start(s)) if s.name().as_ref() == start_name(&t.raw));
                        if !ok {
                            v.push(Violation::new("C04", "wrong-outcome", format!("op {}: expected Start({}), got {}", oi, t.name, got.short())));
                            return;
                        }
                        let id = intern(start_name(&t.raw), &mut interned);
                        for c in cands.iter_mut() {
                            c.push(id);
                        }
                    }
                    TK::Empty => {
                        if cfg & CFG_EXPAND_EMPTY != 0 {
                            let ok = matches!(&got, Out::Ev(Event::Start(s)) if s.name().as_ref() == start_name(&t.raw));
                            if !ok {
                                v.push(Violation::new("C04", "wrong-outcome", format!("op {}: expected expanded Start({}), got {}", oi, t.name, got.short())));
                                return;
                            }
                            let id = intern(start_name(&t.raw), &mut interned);
                            for c in cands.iter_mut() {
                                c.push(id);
                            }
                            half = Some(start_name(&t.raw).to_vec());
                        } else {
                            let ok = matches!(&got, Out::Ev(Event::Empty(s)) if s.name().as_ref() == start_name(&t.raw));
                            if !ok {
                                v.push(Violation::new("C04", "wrong-outcome", format!("op {}: expected Empty({}), got {}", oi, t.name, got.short())));
                                return;
                            }
                        }
                    }
                    TK::End => {
                        judged += 1;
                        let content = &t.raw[2..t.raw.len() - 1];
                        let name_b: &[u8] = if cfg & CFG_TRIM_NAMES != 0 {
                            match content.iter().rposition(|&b| !is_ws(b)) {
                                Some(p) => &content[..p + 1],
                                None => content,
                            }
                        } else {
                            content
                        };
                        // "naming both": the names as the reader's own decoder renders them (the
                        // declared encoding in the `encoding` build, UTF-8 otherwise; bytes that
                        // do not decode give an empty name)
                        let dec = rd.decoder();
                        let render = |b: &[u8]| -> String { dec.decode(b).map(|c| c.into_owned()).unwrap_or_default() };
                        let name = render(name_b);
                        let check = cfg & CFG_CHECK_END_NAMES != 0;
                        let allow = cfg & CFG_ALLOW_UNMATCHED != 0;
                        let is_end = matches!(&got, Out::Ev(Event::End(e)) if e.name().as_ref() == name_b);
                        let got_dbg = match &got {
                            Out::Err { dbg, .. } => Some(dbg.as_str()),
                            _ => None,
                        };
                        let name_id = intern(name_b, &mut interned);
                        let mut next: Vec<Vec<u32>> = vec![];
                        let mut expectations: Vec<String> = vec![];
                        for c in &cands {
                            if c.len() >= 2 || flipped {
                                nontrivial = true;
                            }
                            match c.last() {
                                None => {
                                    if allow {
                                        expectations.push(format!("End({})", name));
                                        if is_end {
                                            next.push(c.clone());
                                        }
                                    } else {
                                        let want = format!("{:?}", Error::IllFormed(IllFormedError::UnmatchedEndTag(name.clone())));
                                        if got_dbg == Some(want.as_str()) {
                                            next.push(c.clone());
                                        }
                                        expectations.push(want);
                                    }
                                }
                                Some(top_id) => {
                                    let top = render(&interned[*top_id as usize]);
                                    let mut popped = c.clone();
                                    popped.pop();
                                    if *top_id == name_id {
                                        expectations.push(format!("End({})", name));
                                        if is_end {
                                            next.push(popped);
                                        }
                                    } else if check {
                                        let want = format!(
                                            "{:?}",
                                            Error::IllFormed(IllFormedError::MismatchedEndTag { expected: top.clone(), found: name.clone() })
                                        );
                                        if got_dbg == Some(want.as_str()) {
                                            // the property does not say whether a mismatched end tag closes the element
                                            next.push(popped);
                                            next.push(c.clone());
                                            ambiguous += 1;
                                        }
                                        expectations.push(want);
                                    } else {
                                        expectations.push(format!("End({})", name));
                                        if is_end {
                                            next.push(popped);
                                            next.push(c.clone());
                                            ambiguous += 1;
                                        }
                                    }
                                }
                            }
                        }
                        if next.is_empty() {
                            expectations.sort();
                            expectations.dedup();
                            v.push(Violation::new(
                                "C04",
                                "end-tag-judged-wrongly",
                                format!(
                                    "op {}: end tag {:?} under [{}] with open elements {:?}: allowed outcomes {:?}, got {}",
                                    oi,
                                    String::from_utf8_lossy(&t.raw),
                                    cfg_text(cfg),
                                    cands
                                        .iter()
                                        .take(4)
                                        .map(|c| {
                                            // innermost six names, the depth for the rest
                                            let tail: Vec<String> = c.iter().skip(c.len().saturating_sub(6)).map(|i| lossy_short(&String::from_utf8_lossy(&interned[*i as usize]))).collect();
                                            if c.len() > 6 {
                                                format!("[… {} more, {}]", c.len() - 6, tail.join(", "))
                                            } else {
                                                format!("[{}]", tail.join(", "))
                                            }
                                        })
                                        .collect::<Vec<_>>(),
                                    expectations,
                                    got.short()
                                ),
                            ));
                            return;
                        }
                        next.sort();
                        next.dedup();
                        if next.len() > 512 {
                            // too many interpretations to follow soundly: stop judging this
                            // history (dropping candidates could drop the true one)
                            overflow = true;
                            return;
                        }
                        cands = next;
                    }
                    _ => {
                        let ok = match (t.k, &got) {
                            (TK::Text, Out::Ev(Event::Text(_))) => true,
                            (TK::Comment, Out::Ev(Event::Comment(_))) => true,
                            (TK::CData, Out::Ev(Event::CData(_))) => true,
                            (TK::PI, Out::Ev(Event::PI(_))) => true,
                            (TK::PI, Out::Ev(Event::Decl(_))) => true,
                            (TK::Decl, Out::Ev(Event::Decl(_))) => true,
                            (TK::DocType, Out::Ev(Event::DocType(_))) => true,
                            _ => false,
                        };
                        if !ok {
                            v.push(Violation::new("C04", "wrong-outcome", format!("op {}: token {:?} {:?}, got {}", oi, t.k, String::from_utf8_lossy(&t.raw), got.short())));
                            return;
                        }
                    }
                }
            }
        });
        st.executions += 1;
        {
            let l = log.borrow();
            st.note_schedule(trace_hash(&l.trace));
            st.add("fault.pending", l.fired_pending as u64);
        }
        st.add("model.end_tags_judged", judged);
        st.add("model.ambiguous_steps", ambiguous);
        st.add("model.candidate_overflow_runs", overflow as u64);
        st.bump(&format!("source.{}", plan.stream.kind.name()));
        if let Err(p) = res {
            panic_to_violation(&p, plan, "nest run", "C03", &mut out);
        }
        out.extend(v);
        st.note_distinct(plan.hash64(), nontrivial && judged > 0);
        st.fold_digest(plan.run, crate::plan::fnv_bytes(format!("{:?}{}", out.iter().map(|v| &v.detail).collect::<Vec<_>>(), judged).as_bytes()));
        out
    }
}

fn lossy_short(s: &str) -> String {
    if s.len() > 24 {
        let mut cut = 24;
        while !s.is_char_boundary(cut) {
            cut -= 1;
        }
        format!("{}…({} bytes)", &s[..cut], s.len())
    } else {
        s.to_string()
    }
}
