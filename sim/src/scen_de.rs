//! `de` (C14 + C07): quick_xml::de::from_str on a document versus
//! quick_xml::de::from_reader over the same bytes delivered in arbitrary pieces, for
//! a family of target types; both under catch_unwind and budgets.

use std::collections::{BTreeMap, HashMap};
use std::rc::Rc;

use serde::de::{DeserializeOwned, IgnoredAny};
use serde::{Deserialize, Serialize};

use crate::common::refill_budget;
use crate::core::{guard, PanicInfo, PanicKind, Scenario, Stats, Tier, Violation};
use crate::gen::*;
use crate::plan::*;
use crate::rng::Rng;
use crate::source::{make_sync, new_log};

// ---------------------------------------------------------------------------------
// the type family

thread_local! {
    /// panic of the extra run with a small event buffer limit (overlapped-lists build)
    static LIMITED_PANIC: std::cell::RefCell<Option<PanicInfo>> = std::cell::RefCell::new(None);
    static ELEMS: std::cell::Cell<u64> = std::cell::Cell::new(0);
    static ELEM_BUDGET: std::cell::Cell<u64> = std::cell::Cell::new(u64::MAX);
}

/// Element wrapper that counts how many sequence elements a deserializer call has
/// produced. A deserializer that keeps producing elements without consuming input
/// (unbounded time *and* memory) trips the budget long before memory runs out.
#[derive(PartialEq, Debug, Clone, Default)]
pub struct B<T>(pub T);
impl<'de, T: Deserialize<'de>> Deserialize<'de> for B<T> {
    fn deserialize<D: serde::Deserializer<'de>>(d: D) -> Result<B<T>, D::Error> {
        let n = ELEMS.with(|c| {
            c.set(c.get() + 1);
            c.get()
        });
        if n > ELEM_BUDGET.with(|b| b.get()) {
            std::panic::panic_any(crate::source::BudgetExceeded("more sequence elements produced than the input has bytes"));
        }
        T::deserialize(d).map(B)
    }
}
impl<T: Serialize> Serialize for B<T> {
    fn serialize<S: serde::Serializer>(&self, s: S) -> Result<S::Ok, S::Error> {
        self.0.serialize(s)
    }
}
fn arm_budget(len: usize) {
    ELEMS.with(|c| c.set(0));
    ELEM_BUDGET.with(|b| b.set(4 * len as u64 + 64));
}

#[derive(Serialize, Deserialize, PartialEq, Debug, Clone, Default)]
pub struct Item {
    #[serde(rename = "@k")]
    k: String,
    #[serde(rename = "$text", default)]
    v: String,
}

#[derive(Serialize, Deserialize, PartialEq, Debug, Clone, Default)]
#[serde(rename = "root")]
pub struct T0 {
    #[serde(rename = "@id")]
    id: String,
    #[serde(rename = "@n", default, skip_serializing_if = "Option::is_none")]
    n: Option<u32>,
    name: String,
    #[serde(default)]
    item: Vec<B<Item>>,
    #[serde(default, skip_serializing_if = "Option::is_none")]
    nt: Option<Newtype>,
    #[serde(default, skip_serializing_if = "Vec::is_empty")]
    units: Vec<B<()>>,
    #[serde(default, skip_serializing)]
    any: Vec<B<Ign>>,
    #[serde(rename = "$text", default, skip_serializing_if = "Option::is_none")]
    text: Option<String>,
}

#[derive(Serialize, Deserialize, PartialEq, Debug, Clone)]
pub enum Choice {
    A(String),
    B {
        #[serde(rename = "@x")]
        x: i32,
    },
    C,
    Tp(String, String),
    #[serde(rename = "$text")]
    Text(String),
}

#[derive(Serialize, Deserialize, PartialEq, Debug, Clone, Default)]
#[serde(rename = "list")]
pub struct T1 {
    #[serde(rename = "$value", default)]
    items: Vec<B<Choice>>,
}

#[derive(Serialize, Deserialize, PartialEq, Debug, Clone, Default)]
#[serde(rename = "t2")]
pub struct T2 {
    #[serde(rename = "@list", default)]
    list: Vec<B<String>>,
    #[serde(default)]
    num: Vec<B<i32>>,
    flag: bool,
}

#[derive(Serialize, Deserialize, PartialEq, Debug, Clone, Default)]
pub struct Inner {
    #[serde(rename = "@a", default)]
    a: Option<String>,
    b: Option<f64>,
    #[serde(default)]
    c: Vec<String>,
}

#[derive(Serialize, Deserialize, PartialEq, Debug, Clone, Default)]
#[serde(rename = "t3")]
pub struct T3 {
    inner: Option<Inner>,
    unit: (),
    tail: String,
}

#[derive(Serialize, Deserialize, PartialEq, Debug, Clone)]
pub enum T5 {
    Alpha {
        #[serde(rename = "@id")]
        id: String,
        body: String,
    },
    Beta(String),
    Gamma,
    Delta(Inner),
}

#[derive(Serialize, Deserialize, PartialEq, Debug, Clone)]
pub enum Mixed {
    #[serde(rename = "$text")]
    Text(String),
    #[serde(rename = "b")]
    Bold(String),
    #[serde(rename = "i")]
    Ital {
        #[serde(rename = "@c", default)]
        c: String,
    },
    #[serde(rename = "br")]
    Br,
}

#[derive(Serialize, Deserialize, PartialEq, Debug, Clone, Default)]
#[serde(rename = "p")]
pub struct T6 {
    #[serde(rename = "@lang", default, skip_serializing_if = "Option::is_none")]
    lang: Option<String>,
    #[serde(rename = "$value", default)]
    content: Vec<B<Mixed>>,
}

#[derive(Debug, Default, Clone, Copy)]
pub struct Ign;
impl PartialEq for Ign {
    fn eq(&self, _: &Ign) -> bool {
        true
    }
}
impl<'de> Deserialize<'de> for Ign {
    fn deserialize<D: serde::Deserializer<'de>>(d: D) -> Result<Ign, D::Error> {
        IgnoredAny::deserialize(d).map(|_| Ign)
    }
}

#[derive(Deserialize, PartialEq, Debug, Clone, Default)]
#[serde(rename = "t7")]
pub struct T7 {
    keep: String,
    #[serde(default)]
    skip: Ign,
    #[serde(default)]
    after: Option<String>,
}

#[derive(Serialize, Deserialize, PartialEq, Debug, Clone, Default)]
#[serde(rename = "t8")]
pub struct T8 {
    #[serde(rename = "@b", default)]
    b: bool,
    #[serde(rename = "@c", default)]
    c: Option<char>,
    i: i64,
    u: Option<u8>,
    f: Option<f32>,
    s: Option<String>,
    #[serde(default)]
    nested: Vec<T8Leaf>,
}

#[derive(Serialize, Deserialize, PartialEq, Debug, Clone, Default)]
pub struct T8Leaf {
    #[serde(rename = "@w", default)]
    w: Vec<u16>,
    #[serde(rename = "$text", default)]
    t: Vec<String>,
}

#[derive(Serialize, Deserialize, PartialEq, Debug, Clone, Default)]
#[serde(rename = "unit")]
pub struct Unit;

#[derive(Serialize, Deserialize, PartialEq, Debug, Clone, Default)]
#[serde(rename = "nt")]
pub struct Newtype(String);

/// two list fields whose elements may interleave (overlapped-lists in the enc variant)
#[derive(Serialize, Deserialize, PartialEq, Debug, Clone, Default)]
#[serde(rename = "ov")]
pub struct T12 {
    #[serde(default)]
    a: Vec<B<String>>,
    #[serde(default)]
    b: Vec<B<Item>>,
    #[serde(default)]
    c: Option<String>,
}

#[derive(Serialize, Deserialize, PartialEq, Debug, Clone, Default)]
#[serde(rename = "ov")]
pub struct T17 {
    #[serde(rename = "@a", default, skip_serializing_if = "Option::is_none")]
    a: Option<String>,
    #[serde(rename = "$value", default)]
    v: Option<String>,
}

#[derive(Serialize, Deserialize, PartialEq, Debug, Clone, Default)]
#[serde(rename = "oc")]
pub struct T18 {
    #[serde(rename = "$value", default)]
    v: Option<Choice>,
}

#[derive(Serialize, Deserialize, PartialEq, Debug, Clone, Default)]
#[serde(rename = "ot")]
pub struct T19 {
    #[serde(rename = "$text", default)]
    t: Option<String>,
    #[serde(default)]
    child: Option<Box<T19>>,
    #[serde(default)]
    list: Option<Vec<String>>,
}

#[derive(Serialize, Deserialize, PartialEq, Debug, Clone, Default)]
#[serde(rename = "ts")]
pub struct T20(String, #[serde(default)] Option<i32>);

#[derive(Serialize, Deserialize, PartialEq, Debug, Clone, Default)]
#[serde(rename = "vl")]
pub struct T21 {
    #[serde(rename = "$value", default)]
    v: Vec<B<String>>,
}

#[derive(Serialize, Deserialize, PartialEq, Debug, Clone)]
pub enum T22 {
    #[serde(rename = "$text")]
    Text(String),
    Unit,
    New(Inner),
    Tuple(String, String),
    Struct {
        #[serde(rename = "$value", default)]
        v: Option<String>,
        #[serde(rename = "@n", default)]
        n: Option<bool>,
    },
}

#[derive(Serialize, Deserialize, PartialEq, Debug, Clone, Default)]
#[serde(rename = "vo")]
pub struct T24 {
    #[serde(rename = "$value", default)]
    v: Vec<B<Option<String>>>,
}

#[derive(Serialize, Deserialize, PartialEq, Debug, Clone, Default)]
#[serde(rename = "io")]
pub struct T25 {
    #[serde(default)]
    item: Vec<B<Option<Item>>>,
    #[serde(rename = "$text", default)]
    t: Option<String>,
    #[serde(rename = "@o", default)]
    o: Vec<B<Option<u8>>>,
}

#[derive(Serialize, Deserialize, PartialEq, Debug, Clone, Default)]
#[serde(rename = "fl")]
pub struct T28 {
    #[serde(rename = "@id", default)]
    id: Option<String>,
    name: Option<String>,
    #[serde(flatten)]
    rest: BTreeMap<String, String>,
}

#[derive(Serialize, Deserialize, PartialEq, Debug, Clone)]
#[serde(untagged)]
pub enum T29 {
    A { a: String },
    Bb { b: i32, #[serde(default)] c: Vec<String> },
    C(String),
}

#[derive(Serialize, Deserialize, PartialEq, Debug, Clone)]
#[serde(tag = "@t")]
pub enum T30 {
    X { v: String },
    Y,
    Z { #[serde(rename = "$text", default)] t: String, #[serde(default)] w: Option<Inner> },
}

#[derive(Serialize, Deserialize, PartialEq, Eq, PartialOrd, Ord, Debug, Clone, Copy, Default)]
pub enum Kind {
    #[default]
    One,
    Two,
    #[serde(rename = "th ree")]
    Three,
}

#[derive(Serialize, Deserialize, PartialEq, Debug, Clone, Default)]
#[serde(rename = "mx")]
pub struct T31 {
    #[serde(rename = "@kind", default)]
    kind: Kind,
    #[serde(rename = "@arr", default)]
    arr: Option<[u8; 2]>,
    #[serde(default)]
    row: Vec<B<Vec<B<String>>>>,
    #[serde(default)]
    k: Option<Kind>,
    #[serde(default)]
    ch: Option<char>,
    #[serde(default)]
    big: Option<i128>,
}

/// a type that asks for bytes (deserialize_byte_buf), as serde_bytes would
#[derive(PartialEq, Debug, Clone, Default)]
pub struct BB(Vec<u8>);
impl<'de> Deserialize<'de> for BB {
    fn deserialize<D: serde::Deserializer<'de>>(d: D) -> Result<BB, D::Error> {
        struct V;
        impl<'de> serde::de::Visitor<'de> for V {
            type Value = BB;
            fn expecting(&self, f: &mut std::fmt::Formatter) -> std::fmt::Result {
                f.write_str("bytes")
            }
            fn visit_bytes<E: serde::de::Error>(self, v: &[u8]) -> Result<BB, E> {
                Ok(BB(v.to_vec()))
            }
            fn visit_byte_buf<E: serde::de::Error>(self, v: Vec<u8>) -> Result<BB, E> {
                Ok(BB(v))
            }
            fn visit_str<E: serde::de::Error>(self, v: &str) -> Result<BB, E> {
                Ok(BB(v.as_bytes().to_vec()))
            }
            fn visit_string<E: serde::de::Error>(self, v: String) -> Result<BB, E> {
                Ok(BB(v.into_bytes()))
            }
        }
        d.deserialize_byte_buf(V)
    }
}

#[derive(Deserialize, PartialEq, Debug, Clone, Default)]
#[serde(rename = "at")]
pub struct T34 {
    #[serde(rename = "@c", default)]
    c: Option<char>,
    #[serde(rename = "@u", default)]
    u: Option<()>,
    #[serde(rename = "@n", default)]
    n: Option<Newtype>,
    #[serde(rename = "@k", default)]
    k: Option<Kind>,
    #[serde(rename = "@t", default)]
    t: Option<(u8, u8)>,
    #[serde(rename = "@l", default)]
    l: Vec<B<Kind>>,
    #[serde(rename = "@b", default)]
    b: Option<BB>,
    #[serde(default)]
    e: Option<BB>,
    #[serde(default)]
    f: Vec<B<char>>,
    #[serde(rename = "$text", default)]
    text: Option<Kind>,
}

#[derive(Serialize, Deserialize, PartialEq, Debug, Clone)]
pub enum T35 {
    #[serde(rename = "$text")]
    Tup(u8, u8),
    A,
    S {
        #[serde(rename = "@x", default)]
        x: Option<u8>,
    },
    N(Kind),
}

#[derive(Deserialize, PartialEq, Debug, Clone, Default)]
#[serde(rename = "tv")]
pub struct T36 {
    #[serde(rename = "$value", default)]
    v: Vec<B<T35>>,
    #[serde(rename = "@id", default)]
    id: Option<BB>,
}

#[derive(Deserialize, PartialEq, Debug, Clone)]
pub enum TxtPayload {
    #[serde(rename = "$text")]
    L(Vec<B<String>>),
    A,
    Bx { #[serde(rename = "@k", default)] k: String },
}
impl Default for TxtPayload {
    fn default() -> Self {
        TxtPayload::A
    }
}
#[derive(Deserialize, PartialEq, Debug, Clone)]
pub enum TxtPayload2 {
    #[serde(rename = "$text")]
    P((u8, u8)),
    #[serde(rename = "k")]
    K(Kind),
    O(Option<Vec<B<u8>>>),
}

#[derive(Deserialize, PartialEq, Debug, Clone, Default)]
#[serde(rename = "ve")]
pub struct T38 {
    #[serde(rename = "@id", default)]
    id: Option<String>,
    #[serde(rename = "$value", default)]
    v: TxtPayload,
}

#[derive(Deserialize, PartialEq, Debug, Clone, Default)]
#[serde(rename = "vo2")]
pub struct T39 {
    #[serde(rename = "$value", default)]
    v: Option<TxtPayload2>,
    #[serde(rename = "@n", default)]
    n: Option<TxtPayload>,
}

/// HashMap with an order-independent Debug rendering (iteration order of a
/// randomised hash map must never reach a log, a digest or a replay file)
#[derive(Deserialize, PartialEq, Clone, Default)]
#[serde(transparent)]
pub struct HM(HashMap<String, String>);
impl std::fmt::Debug for HM {
    fn fmt(&self, f: &mut std::fmt::Formatter<'_>) -> std::fmt::Result {
        let sorted: BTreeMap<&String, &String> = self.0.iter().collect();
        write!(f, "HashMap{:?}", sorted)
    }
}

pub const N_TYPES: u32 = 40;

pub fn type_name(id: u32) -> &'static str {
    match id {
        0 => "T0 {@id,@n?,name,item*,$text?}",
        1 => "T1 {$value: Vec<enum A|B{@x}|C|$text>}",
        2 => "T2 {@list: xs:list, num*, flag}",
        3 => "T3 {inner?: {@a?,b?,c*}, unit: (), tail}",
        4 => "(String, i32)",
        5 => "enum T5 {Alpha{@id,body}|Beta(String)|Gamma|Delta(Inner)}",
        6 => "T6 {@lang?, $value: Vec<$text|b|i{@c}|br>} (mixed content)",
        7 => "T7 {keep, skip: IgnoredAny, after?}",
        8 => "T8 {@b,@c?,i,u?,f?,s?,nested*: {@w: xs:list, $text: xs:list}}",
        9 => "String",
        10 => "BTreeMap<String,String>",
        11 => "HashMap<String,String>",
        12 => "T12 {a*, b*: Item, c?} (interleavable lists)",
        13 => "Option<Item>",
        14 => "Unit",
        15 => "Newtype(String)",
        16 => "Vec<Item>",
        17 => "T17 {@a?, $value: Option<String>}",
        18 => "T18 {$value: Option<enum Choice>}",
        19 => "T19 {$text?, child?: Box<T19>, list?: Vec<String>} (recursive)",
        20 => "T20(String, Option<i32>) tuple struct",
        21 => "T21 {$value: Vec<String>}",
        28 => "T28 {@id?, name?, #[serde(flatten)] BTreeMap}",
        29 => "untagged enum T29 {A{a}|Bb{b,c*}|C(String)}",
        30 => "internally tagged enum T30 (tag=@t) {X{v}|Y|Z{$text,w?}}",
        31 => "T31 {@kind: enum, @arr: [u8;2]?, row*: Vec<Vec<String>>, k?: enum, ch?: char, big?: i128}",
        32 => "BTreeMap<u32,String>",
        33 => "BTreeMap<Kind(enum),bool>",
        34 => "T34 {@c: char?, @u: ()?, @n: Newtype?, @k: enum?, @t: (u8,u8)?, @l: Vec<enum>, @b: bytes?, e: bytes?, f*: char, $text: enum?}",
        35 => "enum T35 {$text(u8,u8)|A|S{@x?}|N(enum)}",
        36 => "T36 {$value: Vec<T35>, @id: bytes?}",
        37 => "Vec<()>",
        38 => "T38 {@id?, $value: enum {$text(Vec<String>)|A|Bx{@k}}} (enum not in a list)",
        39 => "T39 {$value: Option<enum {$text((u8,u8))|k(enum)|O(Option<Vec<u8>>)}>, @n: enum?}",
        23 => "Vec<Option<u8>>",
        24 => "T24 {$value: Vec<Option<String>>}",
        25 => "T25 {item*: Option<Item>, $text?, @o: xs:list of Option<u8>}",
        26 => "Vec<String>",
        27 => "(Option<String>, Option<i32>)",
        22 => "enum T22 {$text|Unit|New(Inner)|Tuple(String,String)|Struct{$value?,@n?}}",
        _ => "?",
    }
}

const STRS: &[&str] = &[
    "", "x", " ", "a b", "<", "&", "\"", "'", "]]>", "\u{e9}", "&amp;", "  lead", "trail  ", "1", "true", "-5", "1e3",
    "\n", "text", "a>b", "--", "?>", "0", "false", "NaN",
];

fn s(rng: &mut Rng) -> String {
    if rng.chance(1, 60) {
        // cross buffer-size thresholds now and then
        let n = *rng.pick(&[70usize, 300, 9000]);
        return "long <&> value ".chars().cycle().take(n).collect();
    }
    rng.pick(STRS).to_string()
}
fn os(rng: &mut Rng) -> Option<String> {
    if rng.bool() {
        Some(s(rng))
    } else {
        None
    }
}
fn item(rng: &mut Rng) -> Item {
    Item { k: s(rng), v: s(rng) }
}
fn inner(rng: &mut Rng) -> Inner {
    Inner {
        a: os(rng),
        b: if rng.bool() { Some(*rng.pick(&[0.0, -1.5, 1e10, 3.25])) } else { None },
        c: (0..rng.below(3)).map(|_| s(rng)).collect(),
    }
}

fn ser<T: Serialize>(v: &T, root: Option<&str>) -> Option<String> {
    let r = guard(|| match root {
        Some(r) => quick_xml::se::to_string_with_root(r, v),
        None => quick_xml::se::to_string(v),
    });
    match r {
        Ok(Ok(s)) => Some(s),
        _ => None,
    }
}

/// a valid-looking document for the type: serializer output of a generated value,
/// or a hand-written template when the serializer refuses the value
pub fn gen_valid_doc(rng: &mut Rng, ty: u32) -> String {
    let made: Option<String> = match ty {
        0 => ser(
            &T0 {
                id: s(rng),
                n: if rng.bool() { Some(rng.below(1000) as u32) } else { None },
                name: s(rng),
                item: (0..rng.below(4)).map(|_| B(item(rng))).collect(),
                nt: if rng.chance(1, 3) { Some(Newtype(s(rng))) } else { None },
                units: (0..rng.below(3)).map(|_| B(())).collect(),
                any: vec![],
                text: os(rng),
            },
            None,
        ),
        1 => ser(
            &T1 {
                items: (0..rng.below(5))
                    .map(|_| B(match rng.below(5) {
                        0 => Choice::A(s(rng)),
                        1 => Choice::B { x: rng.below(100) as i32 - 50 },
                        2 => Choice::C,
                        3 if rng.bool() => Choice::Tp(s(rng), s(rng)),
                        _ => Choice::Text(s(rng)),
                    }))
                    .collect(),
            },
            None,
        ),
        2 => ser(
            &T2 {
                list: (0..rng.below(4)).map(|_| B(s(rng))).collect(),
                num: (0..rng.below(4)).map(|_| B(rng.below(2000) as i32 - 1000)).collect(),
                flag: rng.bool(),
            },
            None,
        ),
        3 => ser(&T3 { inner: if rng.bool() { Some(inner(rng)) } else { None }, unit: (), tail: s(rng) }, None),
        4 => ser(&(s(rng), rng.below(100) as i32), Some("tuple")),
        5 => ser(
            &match rng.below(4) {
                0 => T5::Alpha { id: s(rng), body: s(rng) },
                1 => T5::Beta(s(rng)),
                2 => T5::Gamma,
                _ => T5::Delta(inner(rng)),
            },
            None,
        ),
        6 => ser(
            &T6 {
                lang: os(rng),
                content: (0..rng.below(6))
                    .map(|_| B(match rng.below(4) {
                        0 => Mixed::Text(s(rng)),
                        1 => Mixed::Bold(s(rng)),
                        2 => Mixed::Ital { c: s(rng) },
                        _ => Mixed::Br,
                    }))
                    .collect(),
            },
            None,
        ),
        7 => Some(format!(
            "<t7><keep>{}</keep><skip {}>{}</skip>{}</t7>",
            rng.pick(&["k", "", "a b"]),
            rng.pick(&["", "a='1'", "xmlns:q='u'"]),
            rng.pick(&["", "text", "<a><b/>t</a>", "<skip>x</skip>", "<!--c-->x<![CDATA[y]]>", "<a/><a/>"]),
            rng.pick(&["", "<after>z</after>", "<after/>"])
        )),
        8 => ser(
            &T8 {
                b: rng.bool(),
                c: if rng.bool() { Some(*rng.pick(&['a', ' ', '<', '\u{e9}', '&'])) } else { None },
                i: *rng.pick(&[0i64, -1, i64::MAX, i64::MIN, 42]),
                u: if rng.bool() { Some(rng.below(256) as u8) } else { None },
                f: if rng.bool() { Some(*rng.pick(&[0.5f32, -2.0, 1e20])) } else { None },
                s: os(rng),
                nested: (0..rng.below(3))
                    .map(|_| T8Leaf {
                        w: (0..rng.below(3)).map(|_| rng.below(70000 / 2) as u16).collect(),
                        t: (0..rng.below(3)).map(|_| rng.pick(&["a", "b", "1", "x"]).to_string()).collect(),
                    })
                    .collect(),
            },
            None,
        ),
        9 => ser(&s(rng), Some("s")),
        10 | 11 => {
            let mut m = BTreeMap::new();
            for _ in 0..rng.below(4) {
                m.insert(rng.pick(&["a", "b", "k1", "x-y", "_z"]).to_string(), s(rng));
            }
            ser(&m, Some("map"))
        }
        12 => {
            // written by hand so that the two lists interleave
            let mut d = String::from("<ov>");
            for _ in 0..rng.below(7) {
                match rng.below(4) {
                    0 | 1 => d.push_str(&format!("<a>{}</a>", rng.pick(&["1", "x", "", "a b"]))),
                    2 => d.push_str(&format!("<b k=\"{}\">{}</b>", rng.pick(&["k", ""]), rng.pick(&["v", "", "w w"]))),
                    _ => d.push_str(&format!("<c>{}</c>", rng.pick(&["c", ""]))),
                }
            }
            d.push_str("</ov>");
            Some(d)
        }
        13 => {
            if rng.bool() {
                ser(&Some(item(rng)), Some("item"))
            } else {
                Some(rng.pick(&["<item/>", "", "<item k=\"\"/>", "<item k='a' xsi:nil='true' xmlns:xsi='http://www.w3.org/2001/XMLSchema-instance'/>"]).to_string())
            }
        }
        14 => ser(&Unit, None),
        15 => ser(&Newtype(s(rng)), None),
        16 => {
            let v: Vec<B<Item>> = (0..rng.below(4)).map(|_| B(item(rng))).collect();
            ser(&v, Some("item"))
        }
        17 => {
            if rng.bool() {
                ser(&T17 { a: os(rng), v: os(rng) }, None)
            } else {
                Some(format!("<ov{}>{}</ov>", rng.pick(&["", " a=\"1\"", " xsi:nil=\"true\" xmlns:xsi=\"http://www.w3.org/2001/XMLSchema-instance\""]), rng.pick(&["", "text", "<x/>", "<![CDATA[c]]>", " "])))
            }
        }
        18 => Some(format!("<oc>{}</oc>", rng.pick(&["", "<A>a</A>", "<B x=\"3\"/>", "<C/>", "text", "<A/>"]))),
        19 => {
            let leaf = T19 { t: os(rng), child: None, list: if rng.bool() { Some((0..rng.below(3)).map(|_| s(rng)).collect()) } else { None } };
            let v = if rng.bool() { T19 { t: os(rng), child: Some(Box::new(leaf)), list: None } } else { leaf };
            ser(&v, None)
        }
        20 => Some(format!("<ts>{}</ts>{}", rng.pick(&["a", "", "x y"]), rng.pick(&["", "<ts>1</ts>", "<ts/>", "<ts>x</ts>"]))),
        21 => Some(format!("<vl>{}</vl>", rng.pick(&["", "a", "<a>1</a><b>2</b>", "t<a/>u", "<a>1</a>text"]))),
        28 => Some(format!(
            "<fl{}>{}</fl>",
            rng.pick(&["", " id=\"1\"", " id=\"1\" x=\"y\""]),
            rng.pick(&["", "<name>n</name>", "<name>n</name><a>1</a><b>2</b>", "<a>1</a>text<a>2</a>", "<a><b/></a>", "text", "<name/><name/>", "<a><![CDATA[x]]></a>"])
        )),
        29 => Some(rng.pick(&["<u><a>x</a></u>", "<u><b>1</b><c>p</c><c>q</c></u>", "<u>text</u>", "<u/>", "<u><b>x</b></u>", "<u><a>1</a><b>2</b></u>", "text", "<u><a/></u>"]).to_string()),
        30 => Some(rng.pick(&["<i t=\"X\"><v>1</v></i>", "<i t=\"Y\"/>", "<i t=\"Z\">text<w a=\"1\"/></i>", "<i><v>1</v></i>", "<i t=\"Q\"/>", "<i t=\"X\"/>", "<i t=\"Z\"><![CDATA[]]></i>", "<i t=\"X\" t=\"Y\"><v/></i>"]).to_string()),
        31 => Some(format!(
            "<mx{}>{}</mx>",
            rng.pick(&["", " kind=\"Two\"", " kind=\"th ree\"", " arr=\"1 2\"", " arr=\"1\"", " arr=\"1 2 3\"", " kind=\"\""]),
            rng.pick(&["", "<row>a b</row><row>c</row>", "<row/>", "<k>One</k>", "<k><Two/></k>", "<ch>x</ch>", "<ch>xy</ch>", "<ch></ch>", "<big>170141183460469231731687303715884105727</big>", "<big>-1</big><row> a  b </row>", "<row>a\tb\nc</row>"])
        )),
        32 => Some(rng.pick(&["<m><_1>a</_1></m>", "<m><a>1</a></m>", "<m/>", "<m><n1>x</n1><n2/></m>", "<m>text</m>"]).to_string()),
        33 => Some(rng.pick(&["<m><One>true</One><Two>0</Two></m>", "<m><Three>1</Three></m>", "<m><One/></m>", "<m>One</m>", "<m><One>x</One></m>"]).to_string()),
        34 => Some(format!(
            "<at{}>{}</at>",
            rng.pick(&["", " c=\"x\"", " c=\"xy\"", " c=\"\"", " u=\"\"", " u=\"x\"", " n=\"v\"", " k=\"Two\"", " k=\"th ree\"", " k=\"Nope\"", " t=\"1 2\"", " t=\"1\"", " t=\"1 2 3\"", " l=\"One Two\"", " l=\"One  Bad\"", " b=\"bytes\"", " b=\"&lt;\" c=\"&#65;\"", " c=\"\u{e9}\" k=\"One\" l=\"\""]),
            rng.pick(&["", "One", "Two ", "<e>data</e>", "<e/>", "<f>a</f><f>bc</f>", "<f></f>", "th ree", "<e><![CDATA[x]]>y</e>Two", "Nope"])
        )),
        35 => Some(rng.pick(&["1 2", "<A/>", "<S x=\"3\"/>", "<N>One</N>", "1", "1 2 3", "<N><Two/></N>", "<S>t</S>", "text", "<A>1 2</A>", ""]).to_string()),
        36 => Some(format!("<tv{}>{}</tv>", rng.pick(&["", " id=\"x\"", " id=\"\""]), rng.pick(&["", "1 2", "<A/>3 4<S/>", "<N>Two</N>", "1 2<A/>", "<A/><A/>5", "x", "<S x=\"1\"/>1 2 3"]))),
        37 => Some(rng.pick(&["<u/><u/>", "<u>x</u>", "", "<u/>text<u/>", "<u><a/></u>"]).to_string()),
        38 => Some(format!("<ve{}>{}</ve>", rng.pick(&["", " id=\"1\""]), rng.pick(&["a b c", "", "<A/>", "<Bx k=\"v\"/>", "High", "<![CDATA[x y]]>", "a<A/>", "<A/>b", " a  b "]))),
        39 => Some(format!("<vo2{}>{}</vo2>", rng.pick(&["", " n=\"A\"", " n=\"a b\"", " n=\"\""]), rng.pick(&["1 2", "", "<k>One</k>", "<O>1 2 3</O>", "<O/>", "1", "1 2 3", "<k/>", "x", "<![CDATA[1 2]]>"]))),
        23 => Some(rng.pick(&["<a>1</a><a/><a>3</a>", "<![CDATA[]]>", "<a/>", "1 2 3", "<a>1</a>", "<a><![CDATA[]]></a>", "<a xsi:nil=\"true\" xmlns:xsi=\"http://www.w3.org/2001/XMLSchema-instance\"/><a>2</a>"]).to_string()),
        24 => Some(format!("<vo>{}</vo>", rng.pick(&["", "a", "<a>1</a><b/>", "<![CDATA[]]>", "t<a/>u", "<a/><![CDATA[]]><b/>", "<a><![CDATA[]]></a>"]))),
        25 => Some(format!(
            "<io{}>{}</io>",
            rng.pick(&["", " o=\"1 2\"", " o=\"\"", " o=\" 1  \""]),
            rng.pick(&["", "<item k=\"a\">v</item><item/>", "<item k=\"\"/>text", "<![CDATA[]]>", "<item k=\"a\"><![CDATA[]]></item>", "<item xsi:nil=\"true\" xmlns:xsi=\"http://www.w3.org/2001/XMLSchema-instance\"/>"])
        )),
        26 => Some(rng.pick(&["<s>a</s><s>b</s>", "<s/>", "a b c", "<![CDATA[x]]>", "<![CDATA[]]>", "<s>a</s>t<s/>"]).to_string()),
        27 => Some(rng.pick(&["<t>a</t><t>1</t>", "<t/><t/>", "<![CDATA[]]>", "<t>a</t>", "a 1", "<t><![CDATA[]]></t><t>2</t>"]).to_string()),
        22 => Some(
            rng.pick(&[
                "text",
                "<Unit/>",
                "<New a=\"1\"><b>2.5</b><c>x</c></New>",
                "<Tuple>a</Tuple><Tuple>b</Tuple>",
                "<Struct n=\"true\">v</Struct>",
                "<Struct/>",
                "<Struct xsi:nil=\"true\" xmlns:xsi=\"http://www.w3.org/2001/XMLSchema-instance\">v</Struct>",
            ])
            .to_string(),
        ),
        _ => None,
    };
    made.unwrap_or_else(|| {
        rng.pick(&[
            "<root id=\"1\"><name>n</name><item k=\"a\">v</item>t</root>",
            "<list><A>a</A><B x=\"1\"/><C/>text</list>",
            "<tuple>a</tuple><tuple>1</tuple>",
            "<map><a>1</a><b>2</b></map>",
            "<s>text</s>",
        ])
        .to_string()
    })
}

const DE_INSERTS: &[&str] = &[
    "<!--c-->", "<!---->", "<![CDATA[cd]]>", "<![CDATA[]]>", "<![CDATA[x[0]y[1]>z]]>", "<![CDATA[a]b]>c]]>", "<!--a-b->c-->", "<?p a?b>c?>", "<?pi x?>", "<!DOCTYPE d>", "<!DOCTYPE d [<!ENTITY e 'v'>]>",
    "<x/>", "<x>", "</x>", "<x>t</x>", "t", " ", "\n  ", "&lt;", "&#x41;", "&unknown;", "&", "&e;", "<a>", "</a>",
    "<item k=\"1\">v</item>", "<name>n</name>", "<A>1</A>", "<b>bold</b>", "<br/>", "<skip><skip/></skip>", "<num>7</num>",
    "<inner/>", "<c>z</c>", "<u>x</u>  t", "<u><a/>x<b/></u>\n  t", "<u/> t ", "<u>x<!--c-->y</u>", "<?xml version=\"1.0\"?>", "]]>", "<root>", "</root>", "<$text>", "<a><b><c/></b></a>",
];
const DE_ATTR_INSERTS: &[&str] = &[
    " xsi:nil=\"true\"", " xmlns:xsi=\"http://www.w3.org/2001/XMLSchema-instance\" xsi:nil=\"true\"", " nil=\"true\"",
    " xsi:nil=\"false\"", " k=\"dup\" k=\"dup2\"", " xmlns:xsi=\"http://www.w3.org/2001/XMLSchema-instance\" xsi:nil=\"false\" xsi:nil=\"true\"",
    " xsi:nil=\"0\" xsi:nil=\"1\"", " xsi:nil=\"x\" xsi:nil=\"true\" xmlns:xsi=\"http://www.w3.org/2001/XMLSchema-instance\"", " xsi:nil=\"true\" xsi:nil=\"false\"", " a=b", " a", " =\"v\"", " x=\"1\"", " id='2'", " xmlns=\"u\"", " xmlns:p=\"u\"",
    " p:nil=\"true\" xmlns:p=\"http://www.w3.org/2001/XMLSchema-instance\"", " k=\"&lt;\"", " k=\"&bad;\"", " a='", " list=\"1 2  3\"",
    // names that are a beginning, the whole, or a continuation of the reserved ones
    " xml=\"1\"", " xm=\"1\"", " xml:=\"1\"", " xml:space=\"preserve\"", " xmlnsx=\"u\"", " xmlns:=\"u\"", " x=\"\"", " :a=\"1\"", " a:=\"1\"", " xsi=\"1\"", " xsi:=\"true\"", " :nil=\"true\"",
];

/// naive lexer: `<...>` runs and the text between them (good enough to find mutation sites)
fn lex(doc: &str) -> Vec<(usize, usize, bool)> {
    let b = doc.as_bytes();
    let mut v = vec![];
    let mut i = 0;
    while i < b.len() {
        if b[i] == b'<' {
            let e = b[i..].iter().position(|&c| c == b'>').map(|p| i + p + 1).unwrap_or(b.len());
            v.push((i, e, true));
            i = e;
        } else {
            let e = b[i..].iter().position(|&c| c == b'<').map(|p| i + p).unwrap_or(b.len());
            v.push((i, e, false));
            i = e;
        }
    }
    v
}

fn floor_char(s: &str, mut i: usize) -> usize {
    while i > 0 && !s.is_char_boundary(i) {
        i -= 1;
    }
    i
}

pub fn mutate_doc(rng: &mut Rng, doc: &mut String, n: usize) -> String {
    let mut note = String::new();
    for _ in 0..n {
        let toks = lex(doc);
        match rng.below(9) {
            0 if rng.chance(1, 6) => {
                // an unknown element / attribute with a long name (size thresholds in name handling)
                let n = *rng.pick(&[33usize, 65, 70, 129, 300]);
                let name: String = rng.pick(&["n", "n\u{e9}", "ns:n"]).chars().cycle().take(n).collect();
                let name = if name.ends_with(':') { format!("{}x", name) } else { name };
                let at = if toks.is_empty() { 0 } else { let t = rng.pick(&toks); if rng.bool() { t.0 } else { t.1 } };
                let ins = match rng.below(3) {
                    0 => format!("<{}>x</{}>", name, name),
                    1 => format!("<{}/>", name),
                    _ => format!("<{} {}=\"v\"><i/></{}>", name, name, name),
                };
                doc.insert_str(at, &ins);
                note.push_str(&format!("ins long-named element ({} bytes)@{}; ", n, at));
            }
            1 if rng.chance(1, 5) => {
                // give one element name a namespace prefix, on all its start and end tags
                let tags: Vec<String> = toks
                    .iter()
                    .filter(|t| t.2 && doc.as_bytes().get(t.0 + 1).map(|c| c.is_ascii_alphabetic()).unwrap_or(false))
                    .map(|t| doc[t.0 + 1..t.1].split(|c: char| c.is_whitespace() || c == '>' || c == '/').next().unwrap_or("").to_string())
                    .filter(|n| !n.is_empty() && !n.contains(':'))
                    .collect();
                if !tags.is_empty() {
                    let n = rng.pick(&tags).clone();
                    let pfx = *rng.pick(&["ns", "p", "xsi", "x"]);
                    let decl = if rng.bool() { format!(" xmlns:{}=\"u\"", pfx) } else { String::new() };
                    let mut out = String::with_capacity(doc.len() + 32);
                    let mut rest = doc.as_str();
                    let mut first = true;
                    while let Some(i) = rest.find('<') {
                        out.push_str(&rest[..i + 1]);
                        rest = &rest[i + 1..];
                        let (slash, body) = if let Some(r) = rest.strip_prefix('/') { ("/", r) } else { ("", rest) };
                        if body.starts_with(n.as_str()) && body[n.len()..].starts_with(|c: char| c.is_whitespace() || c == '>' || c == '/') {
                            out.push_str(slash);
                            out.push_str(pfx);
                            out.push(':');
                            out.push_str(&n);
                            if slash.is_empty() && first {
                                out.push_str(&decl);
                                first = false;
                            }
                            rest = &body[n.len()..];
                        }
                    }
                    out.push_str(rest);
                    *doc = out;
                    note.push_str(&format!("prefix {}:{}; ", pfx, n));
                }
            }
            0 | 1 | 2 => {
                // insert at a token boundary or inside text
                let at = if toks.is_empty() || rng.chance(1, 4) {
                    floor_char(doc, rng.below(doc.len() + 1))
                } else {
                    let t = rng.pick(&toks);
                    if rng.bool() {
                        t.0
                    } else {
                        t.1
                    }
                };
                let ins = *rng.pick(DE_INSERTS);
                doc.insert_str(at, ins);
                note.push_str(&format!("ins {:?}@{}; ", ins, at));
            }
            3 => {
                // attribute-level insert into a start tag
                let tags: Vec<&(usize, usize, bool)> = toks
                    .iter()
                    .filter(|t| t.2 && doc.as_bytes().get(t.0 + 1).map(|c| c.is_ascii_alphabetic()).unwrap_or(false) && doc.as_bytes()[t.1 - 1] == b'>')
                    .collect();
                if let Some(t) = tags.get(rng.below(tags.len().max(1))) {
                    let mut at = t.1 - 1;
                    if doc.as_bytes()[at - 1] == b'/' {
                        at -= 1;
                    }
                    let ins = *rng.pick(DE_ATTR_INSERTS);
                    doc.insert_str(at, ins);
                    note.push_str(&format!("attr {:?}@{}; ", ins, at));
                }
            }
            4 if !toks.is_empty() => {
                let t = *rng.pick(&toks);
                doc.replace_range(t.0..t.1, "");
                note.push_str(&format!("del {}..{}; ", t.0, t.1));
            }
            5 if !toks.is_empty() => {
                let t = *rng.pick(&toks);
                let seg = doc[t.0..t.1].to_string();
                let at = rng.pick(&toks).1;
                doc.insert_str(at, &seg);
                note.push_str(&format!("dup {}..{}@{}; ", t.0, t.1, at));
            }
            6 if toks.len() >= 2 => {
                // splice: swap two tokens
                let i = rng.below(toks.len());
                let j = rng.below(toks.len());
                if i != j {
                    let (a, b) = if toks[i].0 < toks[j].0 { (toks[i], toks[j]) } else { (toks[j], toks[i]) };
                    let sa = doc[a.0..a.1].to_string();
                    let sb = doc[b.0..b.1].to_string();
                    doc.replace_range(b.0..b.1, &sa);
                    doc.replace_range(a.0..a.1, &sb);
                    note.push_str(&format!("swap {}..{}<->{}..{}; ", a.0, a.1, b.0, b.1));
                }
            }
            7 if doc.len() > 1 => {
                let at = floor_char(doc, rng.range(1, doc.len() - 1));
                doc.truncate(at);
                note.push_str(&format!("trunc@{}; ", at));
            }
            _ => {
                // replace a text run
                let texts: Vec<&(usize, usize, bool)> = toks.iter().filter(|t| !t.2).collect();
                if let Some(t) = texts.get(rng.below(texts.len().max(1))) {
                    let ins = *rng.pick(&["", " ", "&lt;&gt;", "a&#32;b", "x y z", "\n", "&#0;", "&#x110000;", "true", "1"]);
                    doc.replace_range(t.0..t.1, ins);
                    note.push_str(&format!("text {:?}@{}; ", ins, t.0));
                }
            }
        }
    }
    note
}

// ---------------------------------------------------------------------------------

#[derive(Debug)]
enum Res3 {
    Ok(String),
    Err(String),
    Panic(PanicInfo),
}

fn de_both<T: DeserializeOwned + PartialEq + std::fmt::Debug>(plan: &Plan, from_str_too: bool) -> (Option<Res3>, Res3, bool, u32) {
    let a = if from_str_too {
        let text = std::str::from_utf8(&plan.doc).unwrap();
        arm_budget(plan.doc.len());
        Some(match guard(|| quick_xml::de::from_str::<T>(text)) {
            Ok(Ok(v)) => (Res3::Ok(format!("{:?}", v)), Some(v)),
            Ok(Err(e)) => (Res3::Err(format!("{:?}", e)), None),
            Err(p) => (Res3::Panic(p), None),
        })
    } else {
        None
    };
    let shared = Rc::new(plan.doc.clone());
    let log = new_log(refill_budget(plan.doc.len(), &plan.stream) * 4);
    let src = make_sync(shared, &plan.stream, log.clone(), plan.run);
    arm_budget(plan.doc.len());
    let b = match guard(|| quick_xml::de::from_reader::<_, T>(src)) {
        Ok(Ok(v)) => (Res3::Ok(format!("{:?}", v)), Some(v)),
        Ok(Err(e)) => (Res3::Err(format!("{:?}", e)), None),
        Err(p) => (Res3::Panic(p), None),
    };
    // overlapped-lists build: a third run with a small event buffer limit (TooManyEvents
    // path, replay checkpoints); only the no-panic / budget monitors apply to it
    // one Deserializer used for several values in a row (multi-document streams are a
    // documented usage): only the no-panic / budget monitors apply
    if from_str_too && plan.run % 4 == 0 {
        let text = std::str::from_utf8(&plan.doc).unwrap();
        arm_budget(3 * plan.doc.len() + 64);
        let r = guard(|| {
            let mut de = quick_xml::de::Deserializer::from_str(text);
            for _ in 0..3 {
                if T::deserialize(&mut de).is_err() || de.is_empty() {
                    break;
                }
            }
        });
        if let Err(p) = r {
            LIMITED_PANIC.with(|c| *c.borrow_mut() = Some(p));
        }
    }
    #[cfg(feature = "enc")]
    {
        if from_str_too && LIMITED_PANIC.with(|c| c.borrow().is_none()) {
            let text = std::str::from_utf8(&plan.doc).unwrap();
            let limit = std::num::NonZeroUsize::new(1 + (plan.run % 4) as usize);
            arm_budget(plan.doc.len());
            let r = guard(|| {
                let mut de = quick_xml::de::Deserializer::from_str(text);
                de.event_buffer_size(limit);
                T::deserialize(&mut de).map(|_| ())
            });
            LIMITED_PANIC.with(|c| *c.borrow_mut() = r.err());
        }
    }
    let equal = match (&a, &b) {
        // f32/f64 NaN is not equal to itself under PartialEq: identical Debug renderings
        // (HashMap is rendered sorted) count as equal values as well
        (Some((_, Some(x))), (_, Some(y))) => x == y || format!("{:?}", x) == format!("{:?}", y),
        (Some((_, None)), (_, None)) => true,
        (None, _) => true,
        _ => false,
    };
    let calls = log.borrow().total_calls;
    (a.map(|x| x.0), b.0, equal, calls)
}

fn dispatch(plan: &Plan, from_str_too: bool) -> (Option<Res3>, Res3, bool, u32) {
    match plan.type_id {
        0 => de_both::<T0>(plan, from_str_too),
        1 => de_both::<T1>(plan, from_str_too),
        2 => de_both::<T2>(plan, from_str_too),
        3 => de_both::<T3>(plan, from_str_too),
        4 => de_both::<(String, i32)>(plan, from_str_too),
        5 => de_both::<T5>(plan, from_str_too),
        6 => de_both::<T6>(plan, from_str_too),
        7 => de_both::<T7>(plan, from_str_too),
        8 => de_both::<T8>(plan, from_str_too),
        9 => de_both::<String>(plan, from_str_too),
        10 => de_both::<BTreeMap<String, String>>(plan, from_str_too),
        11 => de_both::<HM>(plan, from_str_too),
        12 => de_both::<T12>(plan, from_str_too),
        13 => de_both::<Option<Item>>(plan, from_str_too),
        14 => de_both::<Unit>(plan, from_str_too),
        15 => de_both::<Newtype>(plan, from_str_too),
        17 => de_both::<T17>(plan, from_str_too),
        18 => de_both::<T18>(plan, from_str_too),
        19 => de_both::<T19>(plan, from_str_too),
        20 => de_both::<T20>(plan, from_str_too),
        21 => de_both::<T21>(plan, from_str_too),
        22 => de_both::<T22>(plan, from_str_too),
        28 => de_both::<T28>(plan, from_str_too),
        29 => de_both::<T29>(plan, from_str_too),
        30 => de_both::<T30>(plan, from_str_too),
        31 => de_both::<T31>(plan, from_str_too),
        32 => de_both::<BTreeMap<u32, String>>(plan, from_str_too),
        33 => de_both::<BTreeMap<Kind, bool>>(plan, from_str_too),
        34 => de_both::<T34>(plan, from_str_too),
        35 => de_both::<T35>(plan, from_str_too),
        36 => de_both::<T36>(plan, from_str_too),
        37 => de_both::<Vec<B<()>>>(plan, from_str_too),
        38 => de_both::<T38>(plan, from_str_too),
        39 => de_both::<T39>(plan, from_str_too),
        23 => de_both::<Vec<B<Option<u8>>>>(plan, from_str_too),
        24 => de_both::<T24>(plan, from_str_too),
        25 => de_both::<T25>(plan, from_str_too),
        26 => de_both::<Vec<B<String>>>(plan, from_str_too),
        27 => de_both::<(B<Option<String>>, B<Option<i32>>)>(plan, from_str_too),
        _ => de_both::<Vec<B<Item>>>(plan, from_str_too),
    }
}

/// The document re-written as a windows-1251 document with a declaration: some Latin
/// letters of the names become Cyrillic bytes, other non-ASCII characters become arbitrary
/// high bytes, and now and then an attribute with a name of 1..20 Cyrillic bytes is added
/// to a start tag (name decoding into the key buffer sees every length). Not UTF-8 any
/// more: only `from_reader` runs on it, only C07's monitors apply.
pub fn to_cp1251(rng: &mut Rng, doc: &str) -> Vec<u8> {
    let mut out: Vec<u8> = b"<?xml version=\"1.0\" encoding=\"windows-1251\"?>".to_vec();
    let map = |c: char| -> Option<u8> {
        match c {
            'a' => Some(0xE0),
            'b' => Some(0xE1),
            'k' => Some(0xEA),
            'i' => Some(0xE8),
            'd' => Some(0xE4),
            'n' => Some(0xED),
            _ => None,
        }
    };
    let mut in_tag_name = false;
    let mut prev = '\0';
    for c in doc.chars() {
        if in_tag_name && (c == ' ' || c == '>' || c == '/' || c == '\n' || c == '\t') {
            in_tag_name = false;
            if rng.chance(1, 3) {
                out.push(b' ');
                for _ in 0..rng.range(1, 20) {
                    out.push(0xE0 + rng.below(32) as u8);
                }
                out.extend_from_slice(b"=\"v\"");
            }
        }
        if prev == '<' && (c.is_alphabetic() || c == '_') {
            in_tag_name = true;
        }
        if c.is_ascii() {
            match map(c) {
                Some(b) if rng.chance(2, 3) => out.push(b),
                _ => out.push(c as u8),
            }
        } else {
            out.push(0xC0 + (c as u32 % 64) as u8);
        }
        prev = c;
    }
    out
}

/// C14 speaks about UTF-8 documents "not declaring another encoding": anything that
/// looks like an encoding pseudo-attribute with a value other than UTF-8 is excluded
/// from the comparison (conservatively: anywhere in the document).
pub fn declares_other_encoding(doc: &[u8]) -> bool {
    let lower: Vec<u8> = doc.iter().map(|b| b.to_ascii_lowercase()).collect();
    let needle = b"encoding";
    let mut i = 0;
    while i + needle.len() <= lower.len() {
        if &lower[i..i + needle.len()] == needle {
            let rest = &lower[i + needle.len()..];
            let v: Vec<u8> = rest.iter().copied().skip_while(|b| matches!(b, b' ' | b'\t' | b'\r' | b'\n' | b'=')).collect();
            let ok = match v.first() {
                Some(b'"') | Some(b'\'') => v[1..].starts_with(b"utf-8") && v.get(6) == Some(&v[0]),
                _ => false,
            };
            if !ok {
                return true;
            }
        }
        i += 1;
    }
    false
}

pub struct De;

impl Scenario for De {
    fn name(&self) -> &'static str {
        "de"
    }
    fn panic_prop(&self) -> &'static str {
        "C07"
    }
    fn gen(&self, rng: &mut Rng, base_seed: u64, run: u64, _tier: Tier) -> Plan {
        let mut p = Plan::new("de", base_seed, run);
        p.type_id = rng.below(N_TYPES as usize) as u32;
        // the document may be made for another type of the family (a cheap source of
        // "valid XML, wrong shape")
        let doc_ty = if rng.chance(1, 8) { rng.below(N_TYPES as usize) as u32 } else { p.type_id };
        let mut doc = gen_valid_doc(rng, doc_ty);
        p.note = format!("target {}; document of type {}", type_name(p.type_id), doc_ty);
        match rng.below(10) {
            0 | 1 | 2 => {}
            3..=7 => {
                let n = rng.range(1, 3);
                let note = mutate_doc(rng, &mut doc, n);
                p.note.push_str(&format!("; mutated: {}", note));
            }
            8 => {
                // token soup
                let t = gen_soup(rng, 8, true);
                doc = String::from_utf8_lossy(&concat(&t)).into_owned();
                p.note.push_str("; soup");
            }
            _ => {
                if doc.len() > 1 {
                    let at = floor_char(&doc, rng.range(1, doc.len() - 1));
                    doc.truncate(at);
                    p.note.push_str(&format!("; truncated at {}", at));
                }
            }
        }
        if rng.chance(1, 16) {
            p.doc = to_cp1251(rng, &doc);
            p.note.push_str("; rewritten as windows-1251");
        } else {
            p.doc = doc.into_bytes();
        }
        let (mut st, mode) = gen_stream(rng, &p.doc, false);
        st.keep_buf = false;
        st.faults.clear();
        p.stream = st;
        p.note.push_str(&format!("; cuts: {}", mode));
        p
    }

    fn exec(&self, plan: &Plan, st: &mut Stats) -> Vec<Violation> {
        let mut out = vec![];
        let utf8 = std::str::from_utf8(&plan.doc).is_ok();
        let (a, b, equal, calls) = dispatch(plan, utf8);
        st.executions += if utf8 { 2 } else { 1 };
        st.bump(&format!("source.{}", plan.stream.kind.name()));
        st.add("fault.short_read_pieces", calls as u64);
        classify_cuts(&plan.doc, &plan.stream.cuts, &mut st.hits);
        st.note_schedule(crate::plan::fnv_bytes(&plan.stream.cuts.iter().flat_map(|c| c.to_le_bytes()).collect::<Vec<u8>>()) ^ crate::plan::fnv_bytes(&plan.doc) ^ calls as u64);
        let limited = LIMITED_PANIC.with(|c| c.borrow_mut().take()).map(Res3::Panic);
        let mut str_ok = false;
        for (which, r) in [("from_str", a.as_ref()), ("from_reader", Some(&b)), ("Deserializer::from_str used for several values / with event_buffer_size(1..4)", limited.as_ref())] {
            match r {
                Some(Res3::Panic(p)) => match p.kind {
                    PanicKind::Harness | PanicKind::Exec => crate::core::harness_fail(which, p, plan),
                    PanicKind::Library => out.push(Violation::new(
                        "C07",
                        "panic",
                        format!("{}::<{}> panicked at {}: {}", which, type_name(plan.type_id), p.loc, p.msg),
                    )),
                    PanicKind::Budget => out.push(Violation::new(
                        "C07",
                        "non-termination",
                        format!("{}::<{}>: {}", which, type_name(plan.type_id), p.msg),
                    )),
                    PanicKind::Misuse => out.push(Violation::new("C07", "seam-misuse", format!("{}: {}", which, p.msg))),
                },
                Some(Res3::Ok(_)) => {
                    if which == "from_str" {
                        str_ok = true
                    }
                }
                _ => {}
            }
        }
        if str_ok {
            st.bump("de.from_str_ok");
        } else {
            st.bump("de.from_str_fail");
        }
        let other_enc = declares_other_encoding(&plan.doc);
        if other_enc {
            st.bump("de.excluded_declares_other_encoding");
        }
        if utf8 && !equal && !other_enc {
            out.push(Violation::new(
                "C14",
                "str-reader-disagree",
                format!("target {}: from_str gave {:?}; from_reader over {} gave {:?}", type_name(plan.type_id), a, plan.stream.kind.name(), b),
            ));
        }
        let inside = cut_inside_markup(&plan.doc, &plan.stream.cuts);
        // C14's rule: boundary inside markup; C07's rule: outcome Err or document mutated
        let nontrivial = inside || !str_ok;
        st.note_distinct(plan.hash64(), nontrivial);
        if inside && str_ok {
            st.bump("de.cut_inside_markup_and_ok");
        }
        st.fold_digest(plan.run, crate::plan::fnv_bytes(format!("{:?}{:?}", a, b).as_bytes()));
        out
    }
}
