//! A tiny deterministic executor. No threads, no real clock: a task is polled when
//! its wake flag is set; which runnable task is polled next is read from the Plan's
//! choice stream; deferred wake-ups live in the simulated timer queue and the clock
//! jumps to the next one when nothing is runnable.

use std::future::Future;
use std::pin::Pin;
use std::sync::atomic::{AtomicBool, Ordering};
use std::sync::Arc;
use std::task::{Context, Poll, Wake, Waker};

use crate::source::Timers;

pub struct Flag(AtomicBool);
impl Wake for Flag {
    fn wake(self: Arc<Self>) {
        self.0.store(true, Ordering::SeqCst)
    }
    fn wake_by_ref(self: &Arc<Self>) {
        self.0.store(true, Ordering::SeqCst)
    }
}

#[derive(Debug, Clone, Copy, PartialEq, Eq)]
pub enum ExecError {
    /// nothing runnable, no timer pending, task unfinished: a stub forgot a wake-up
    Deadlock,
    /// tick budget exceeded
    Budget,
}

/// Poll one future to completion.
pub fn block_on<F: Future>(fut: F, timers: &Timers, max_ticks: u64) -> Result<F::Output, ExecError> {
    let mut fut = Box::pin(fut);
    let flag = Arc::new(Flag(AtomicBool::new(true)));
    let waker = Waker::from(flag.clone());
    let mut cx = Context::from_waker(&waker);
    let mut ticks = 0u64;
    loop {
        timers.fire_due();
        if flag.0.swap(false, Ordering::SeqCst) {
            ticks += 1;
            timers.tick();
            if ticks > max_ticks {
                return Err(ExecError::Budget);
            }
            if let Poll::Ready(v) = fut.as_mut().poll(&mut cx) {
                return Ok(v);
            }
        } else if !timers.jump() {
            return Err(ExecError::Deadlock);
        }
    }
}

pub struct Task<'a> {
    pub fut: Pin<Box<dyn Future<Output = ()> + 'a>>,
    flag: Arc<Flag>,
    pub done: bool,
    pub polls: u64,
}

impl<'a> Task<'a> {
    pub fn new(fut: impl Future<Output = ()> + 'a) -> Task<'a> {
        Task { fut: Box::pin(fut), flag: Arc::new(Flag(AtomicBool::new(true))), done: false, polls: 0 }
    }
}

pub struct ExecStats {
    pub ticks: u64,
    pub spurious: u64,
    pub switches: u64,
    /// hash of the sequence of task picks: identifies the interleaving
    pub order_hash: u64,
}

/// Run several tasks until all are done. `sched[i]` decides step i:
/// values >= 240 ask for a spurious poll of an unfinished task (legal for any
/// executor), otherwise `sched[i] % runnable` picks among the woken tasks.
pub fn run_tasks(
    tasks: &mut [Task<'_>],
    sched: &[u8],
    timers: &Timers,
    max_ticks: u64,
) -> Result<ExecStats, ExecError> {
    let mut st = ExecStats { ticks: 0, spurious: 0, switches: 0, order_hash: 0xcbf29ce484222325 };
    let mut step = 0usize;
    let mut last = usize::MAX;
    loop {
        if tasks.iter().all(|t| t.done) {
            return Ok(st);
        }
        timers.fire_due();
        let choice = if sched.is_empty() { 0 } else { sched[step % sched.len()] };
        step += 1;
        let unfinished: Vec<usize> = (0..tasks.len()).filter(|&i| !tasks[i].done).collect();
        let runnable: Vec<usize> = unfinished
            .iter()
            .copied()
            .filter(|&i| tasks[i].flag.0.load(Ordering::SeqCst))
            .collect();
        let pick = if choice >= 240 {
            st.spurious += 1;
            unfinished[(choice as usize - 240) % unfinished.len()]
        } else if runnable.is_empty() {
            if timers.jump() {
                continue;
            }
            return Err(ExecError::Deadlock);
        } else {
            runnable[choice as usize % runnable.len()]
        };
        st.ticks += 1;
        timers.tick();
        if st.ticks > max_ticks {
            return Err(ExecError::Budget);
        }
        st.order_hash = (st.order_hash ^ pick as u64).wrapping_mul(0x100000001b3);
        if pick != last {
            st.switches += 1;
            last = pick;
        }
        let t = &mut tasks[pick];
        t.flag.0.store(false, Ordering::SeqCst);
        t.polls += 1;
        let waker = Waker::from(t.flag.clone());
        let mut cx = Context::from_waker(&waker);
        if let Poll::Ready(()) = t.fut.as_mut().poll(&mut cx) {
            t.done = true;
        }
    }
}
