//! Which scenarios decide which property, and with how many runs.

use crate::core::Scenario;
use crate::driver::{CheckSpec, Part};

pub static CHUNK: crate::scen_chunk::Chunk = crate::scen_chunk::Chunk { corpus: false };
pub static CORPUS: crate::scen_chunk::Chunk = crate::scen_chunk::Chunk { corpus: true };
pub static SOUP: crate::scen_chunk::Soup = crate::scen_chunk::Soup;
pub static FAULT: crate::scen_fault::FaultScen = crate::scen_fault::FaultScen { corpus: false };
pub static CORPUSFAULT: crate::scen_fault::FaultScen = crate::scen_fault::FaultScen { corpus: true };

pub static SKIP: crate::scen_hist::Skip = crate::scen_hist::Skip;
pub static NS: crate::scen_hist::Ns = crate::scen_hist::Ns;
pub static NEST: crate::scen_hist::Nest = crate::scen_hist::Nest;

pub static DE: crate::scen_de::De = crate::scen_de::De;
pub static DYN: crate::scen_dyn::DynScen = crate::scen_dyn::DynScen;
pub static PIPE: crate::scen_pipe::Pipe = crate::scen_pipe::Pipe;

/// property charged with a hang found by the watchdog in a plan of this scenario
pub fn panic_prop_of(scenario: &str) -> &'static str {
    all_scenarios().into_iter().find(|s| s.name() == scenario).map(|s| s.panic_prop()).unwrap_or("C03")
}

/// the 'static id of a claimed property (violations carry &'static str)
pub fn static_prop(p: &str) -> &'static str {
    for id in ["C02", "C03", "C04", "C05", "C07", "C09", "C12", "C14", "C18"] {
        if id == p {
            return id;
        }
    }
    "C03"
}

pub fn all_scenarios() -> Vec<&'static dyn Scenario> {
    vec![&CHUNK, &SOUP, &FAULT, &SKIP, &NS, &NEST, &DE, &DYN, &PIPE, &CORPUS, &CORPUSFAULT]
}

const STUBS: &[&str] = &[
    "SimSource (BufRead/Read/AsyncBufRead/AsyncRead driven by the Plan)",
    "deterministic single-threaded executor with simulated timer queue",
    "the caller (operation script, buffer reuse policy, configuration flips)",
];

pub fn spec_for(prop: &str) -> Option<CheckSpec> {
    let real_reader = vec![
        "quick_xml::Reader / NsReader (slice, BufRead and AsyncBufRead implementations)",
        "std::io::BufReader",
        "tokio::io::BufReader and tokio's AsyncBufReadExt::fill_buf future",
    ];
    match prop {
        "C02" => Some(CheckSpec {
            prop: "C02",
            level: "exploration",
            parts: vec![Part { scen: &CHUNK, quick: 2_400_000, thorough: 60_000_000 }, Part { scen: &CORPUS, quick: 36, thorough: 3_600 }],
            rule: "(corpus plans also go through Reader::from_file on a real scratch file, written before or after it is opened) one case = (document, 7 reader switches, reader flavour, source kind, BufReader capacity, cut set, buffer policy, pending pattern); generated from the seed; distinct = distinct Plan hash (every cut set of an exhaustively cut short document counts once); non-trivial = at least one piece boundary lies strictly between a '<' and the next '>' (scanner state must cross a refill) or at least one Poll::Pending fired",
            assumptions: vec![
                "the slice reader is the reference: agreement is checked, not the correctness of either side",
                "the first piece holds the complete signature when the input starts with a BOM / UTF-16 signature byte (exception stated by C02): 3 bytes for a UTF-8 BOM, 2 for a UTF-16 BOM, 4 otherwise",
                "inputs are sampled, not enumerated (except all 2^(n-1) cut sets of documents of <= 10 bytes)",
            ],
            real: real_reader,
            stub: STUBS.to_vec(),
        }),
        "C03" => Some(CheckSpec {
            prop: "C03",
            level: "exploration",
            parts: vec![
                Part { scen: &SOUP, quick: 2_000_000, thorough: 40_000_000 },
                Part { scen: &CHUNK, quick: 300_000, thorough: 4_000_000 },
                Part { scen: &FAULT, quick: 20_000, thorough: 300_000 },
                Part { scen: &SKIP, quick: 300_000, thorough: 4_000_000 },
                Part { scen: &NS, quick: 300_000, thorough: 4_000_000 },
                Part { scen: &NEST, quick: 300_000, thorough: 4_000_000 },
                Part { scen: &CORPUS, quick: 18, thorough: 1_800 },
            ],
            rule: "one case = (byte string, switches, reader flavour, source kind, chunking, faults, end-of-stream point, sticky or not: half of the early ends are followed by the rest of the document on later refills); distinct = distinct Plan hash x end-of-stream point; non-trivial = the run produced at least one event or error before Eof",
            assumptions: vec![
                "panic attribution: a panic whose location is outside /verif/sim is charged to the library",
                "budgets: reads to Eof <= 2*len+4; source calls <= 12*len + faults + 128; wall-clock watchdog 30 s + 1 s per 5 KB per plan",
                "after an injected I/O error only no-panic/termination are monitored (no property says more)",
                "built with debug-assertions and overflow-checks on, so the library's own debug_assert!s count as panics",
            ],
            real: real_reader,
            stub: STUBS.to_vec(),
        }),
        "C18" => Some(CheckSpec {
            prop: "C18",
            level: "fault_enumeration",
            parts: vec![Part { scen: &FAULT, quick: 120_000, thorough: 3_000_000 }, Part { scen: &CORPUSFAULT, quick: 0, thorough: 360 }],
            rule: "one case = (document, switches, source kind, cut set, fault point, fault kind); for each sampled (document, switches, source, cuts) EVERY refill call index of the fault-free run is used as fault point with Eintr x1, Eintr x3 and one hard error kind; one enumerated plan in four runs a Read/Skip call history instead of plain reads (refills inside read_to_end_into are fault points too); error payloads are a string or a quick_xml::Error; a quarter of the plans are random multi-fault patterns instead; distinct = Plan hash x fault list; non-trivial = the fault hit a refill call that is not the first one of its read call (part of the event was already consumed)",
            assumptions: vec![
                "the fault-free run over the same source and chunking is the reference",
                "fault points are exhaustive per sampled (document, chunking); documents and chunkings are sampled",
                "after the hard error nothing is asserted about later calls except no panic / termination",
            ],
            real: real_reader,
            stub: STUBS.to_vec(),
        }),
        "C12" => Some(CheckSpec {
            prop: "C12",
            level: "exploration",
            parts: vec![Part { scen: &SKIP, quick: 4_000_000, thorough: 100_000_000 }],
            rule: "one case = (well-nested token document with repeated names, look-alike end tags in comments/CDATA/PIs/attribute values and blanks around tags; trim/expand/check switches; source kind and chunking; script of Read / Skip / ReadText / SkipUp(n) calls (SkipUp = read_to_end with the name of the n-th enclosing open element, at any point inside it); optional truncation point, injected I/O error or interrupt); distinct = Plan hash; non-trivial = at least one skip was made AND (a skipped element contains its own name as '</name' inside — nested same-name element or look-alike — or a failure path was taken)",
            assumptions: vec![
                "element spans and matching end tags come from the generator's token list, not from the library",
                "events after a skip are compared with a plain event-by-event read of the same bytes by the slice reader (skipping == reading and discarding)",
                "SkipUp reads C12's 'the end tag that closes that element (counting nested elements of the same name)' for a name passed later than directly after the Start: expected end = end tag of the innermost open element of that name; only span end, position and the following events are judged (plain Reader only; NsReader documents the call for directly after Start)",
                "trim_markup_names_in_closing_tags stays on (with it off the documentation itself says names with blanks do not match)",
            ],
            real: real_reader,
            stub: STUBS.to_vec(),
        }),
        "C05" => Some(CheckSpec {
            prop: "C05",
            level: "exploration",
            parts: vec![Part { scen: &NS, quick: 3_000_000, thorough: 80_000_000 }],
            rule: "one case = (well-formed token document over 3 prefixes / 3 URIs with declarations, re-declarations, xmlns=\"\", xmlns:p=\"\" and shadowing; expand-empty on/off; source kind and chunking; script of Read / ReadResolved / Skip / ReadText calls); after EVERY call 14 probe names (7 prefixes x element/attribute) and the prefixes() listing are compared with the scope model; distinct = Plan hash; non-trivial = at least one declaration was in play AND (at least one skip or at least one shadowing)",
            assumptions: vec![
                "the scope model is computed from the generator's token list (declarations per element), never from the library's output",
                "documents are well-formed; 1 in 15 carries one declaration that touches the reserved xml/xmlns prefixes or namespaces, as first or last attribute of its tag: for the illegal ones the matching NamespaceError is expected at that element and the run ends there; the legal re-statement of xmlns:xml must change nothing, in particular not the declarations after it",
            ],
            real: real_reader,
            stub: STUBS.to_vec(),
        }),
        "C04" => Some(CheckSpec {
            prop: "C04",
            level: "exploration",
            parts: vec![Part { scen: &NEST, quick: 4_000_000, thorough: 100_000_000 }],
            rule: "one case = (sequence of well-formed tokens over names a/ab/b/a:b incl. end tags with trailing blanks or attributes and <x/>; initial values of the 4 related switches; script of Read calls with 0-8 switch flips at arbitrary points; source kind and chunking); 1 in 8 documents is written in windows-1251 with a declaration and non-ASCII element names (also run against the `encoding` build); every outcome is judged by a nondeterministic open-element-stack model over name BYTES, the names inside the errors are rendered with the reader's own decoder(); distinct = Plan hash; non-trivial = an end tag was judged while depth >= 2 or after at least one flip",
            assumptions: vec![
                "where the property is silent (does a non-matching end tag close the element?) the model keeps both successor states; an outcome is a violation only if no candidate stack allows it",
                "text trimming and comment checking are off so that every token yields exactly one outcome",
            ],
            real: real_reader,
            stub: STUBS.to_vec(),
        }),
        "C14" => Some(CheckSpec {
            prop: "C14",
            level: "exploration",
            parts: vec![Part { scen: &DE, quick: 4_000_000, thorough: 150_000_000 }, Part { scen: &DYN, quick: 2_000_000, thorough: 75_000_000 }],
            rule: "one case = (target type of a 40-type family, UTF-8 document: serializer output of a generated value / 1-3 token-level mutations / token soup / truncation, source kind SimBufRead or std BufReader(cap), cut set); from_str and from_reader must both fail or both succeed with equal values; distinct = Plan hash; non-trivial = at least one piece boundary strictly inside markup, or from_str fails (then from_reader must fail too); evidence also reports how many cases had a boundary inside markup AND a successful from_str. Scenario `dyn`: the target type itself is generated per case (a Shape tree over all 29 serde data-model kinds, interpreted by one DeserializeSeed that asks the deserializer exactly what derive-generated code of that shape asks), the document is generated to fit the shape and then mutated; the value compared is the trace of everything the visitors were shown",
            assumptions: vec![
                "only the chunking is varied (no interrupts, no I/O errors): exactly what C14 states",
                "values are compared with PartialEq (dyn: visitor traces with ==); error values are not compared",
                "dyn: shapes containing &str / &[u8] are not owned types and are excluded from the comparison (still run for C07)",
                "documents never declare a non-UTF-8 encoding",
            ],
            real: vec!["quick_xml::de::{from_str, from_reader} (Deserializer, XmlReader, IoReader, SliceReader)", "quick_xml::se::to_string (workload only)", "std::io::BufReader", "serde derive-generated visitors of the type family", "serde's own Deserialize impls for primitives, String, IgnoredAny (dyn leaves)"],
            stub: vec![STUBS[0], STUBS[2], "dyn: the target type (a Shape interpreter following derive's visitor protocol)"],
        }),
        "C07" => Some(CheckSpec {
            prop: "C07",
            level: "exploration",
            parts: vec![Part { scen: &DE, quick: 4_000_000, thorough: 150_000_000 }, Part { scen: &DYN, quick: 2_000_000, thorough: 75_000_000 }],
            rule: "same cases as C14 (both entry points are executed for every case); a panic from library code or an exceeded source-call budget / wall-clock watchdog is a violation; distinct = Plan hash; non-trivial = the document is not accepted by from_str (mutated / wrong shape / truncated) or is cut inside markup. Scenario `dyn` adds generated target types (see C14): every deserialize_* entry point of the Deserializer and every access protocol (SeqAccess, MapAccess with identifier keys, EnumAccess with unit/newtype/tuple/struct variants) is driven with shapes no fixed family contains",
            assumptions: vec![
                "dyn: the generated visitors keep to serde's protocol (next_value after next_key, one variant access per variant_seed, early return only with an error)",
                "dyn: bounded time also = visitor callbacks <= 8*len+256 per call",
                "panic attribution: a panic whose location is outside /verif/sim is charged to the library",
                "bounded time = source calls <= 4*(12*len+128), sequence elements produced <= 4*len+64 (counted by a wrapper type around every sequence element of the family), and a wall-clock watchdog (30 s + 1 s per 5 KB of document) per case",
                "inputs are sampled, not enumerated",
            ],
            real: vec!["quick_xml::de::{from_str, from_reader}", "std::io::BufReader", "serde derive-generated visitors of the type family"],
            stub: STUBS.to_vec(),
        }),
        "C09" => Some(CheckSpec {
            prop: "C09",
            level: "exploration",
            parts: vec![Part { scen: &PIPE, quick: 1_500_000, thorough: 50_000_000 }],
            rule: "one case = (sequence of <= 12 builder calls with in-place edits and markup-heavy payloads; a tag starts as BytesStart::new, BytesStart::from_content (owned/borrowed), a Start event handed out by a Reader, or template.borrow(); indentation or none, pipe capacity, per-call accepted lengths, write/read Pending patterns, reader piece sizes, executor choice stream, optional write-error point); the sync writer is also run over a sink that accepts a few bytes per write / native write_vectored call with Interrupted in between (bytes must equal the Vec output); writer task and reader task run interleaved over the simulated pipe; distinct = Plan hash; non-trivial = the reader task found the pipe empty while the writer was not finished (an event was only partly delivered) AND at least one short write or back-pressure Pending occurred, or a write error was injected",
            assumptions: vec![
                "preconditions of the constructors are enforced by predicates on the final strings (names legal, PI without '?>', comment without '--', doctype non-empty/balanced, CDATA::new without ']]>')",
                "with indentation the read-back comparison takes the blanks out of every text run on both sides (indentation only ever adds blanks to character data; which blanks exactly is C19, a pure function of the event sequence); byte equality async == sync is checked with and without indentation",
                "reader side runs with end-name checks off and unmatched ends allowed because sequences need not be balanced",
            ],
            real: vec![
                "quick_xml::Writer::{write_event, write_event_async}, ElementWriter::* and *_async",
                "quick_xml::events constructors (BytesStart/End/Text/CData/PI/Decl) and in-place edits",
                "quick_xml::Reader::read_event_into_async on the other end of the pipe",
                "tokio's AsyncWriteExt::write_all / shutdown and AsyncBufReadExt::fill_buf futures",
            ],
            stub: vec!["bounded in-memory pipe (AsyncWrite end, AsyncBufRead end) driven by the Plan", "two-task deterministic executor with choice stream and spurious polls"],
        }),
        _ => None,
    }
}
