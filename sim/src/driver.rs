//! Seeded search over plans on all cores, shrinking, replay files, known findings,
//! evidence.

use std::sync::atomic::{AtomicU64, Ordering};
use std::sync::{Arc, Mutex};
use std::time::Instant;

use serde_json::{json, Value};

use crate::core::*;
use crate::plan::*;
use crate::rng::{run_seed, Rng};

pub const DEFAULT_SEED: u64 = 20260927;

#[cfg(feature = "enc")]
pub const VARIANT: &str = "enc";
#[cfg(not(feature = "enc"))]
pub const VARIANT: &str = "plain";

pub struct Part {
    pub scen: &'static dyn Scenario,
    pub quick: u64,
    pub thorough: u64,
}

pub struct CheckSpec {
    pub prop: &'static str,
    pub level: &'static str,
    pub parts: Vec<Part>,
    pub rule: &'static str,
    pub assumptions: Vec<&'static str>,
    pub real: Vec<&'static str>,
    pub stub: Vec<&'static str>,
}

pub fn scenario_by_name(name: &str) -> Option<&'static dyn Scenario> {
    crate::registry::all_scenarios().into_iter().find(|s| s.name() == name)
}

// ---------------------------------------------------------------------------------
// watchdog: wall-clock guard against loops that never touch a stub

struct Slot {
    /// incremented at every enter(): identifies the plan the worker is on
    gen: u64,
    started: Option<Instant>,
    plan: Option<Arc<Plan>>,
    /// kernel thread id of the worker (for its CPU time in /proc)
    tid: u64,
}

pub struct Watch {
    slots: Vec<Mutex<Slot>>,
}

fn current_tid() -> u64 {
    // /proc/thread-self -> "<pid>/task/<tid>"
    std::fs::read_link("/proc/thread-self")
        .ok()
        .and_then(|p| p.file_name().map(|f| f.to_string_lossy().into_owned()))
        .and_then(|s| s.parse().ok())
        .unwrap_or(0)
}

/// CPU seconds (user+system) a thread of this process has consumed so far
fn thread_cpu_secs(tid: u64) -> Option<f64> {
    let path = if tid == 0 { "/proc/self/stat".to_string() } else { format!("/proc/self/task/{}/stat", tid) };
    let s = std::fs::read_to_string(path).ok()?;
    // fields after the last ')' : state is field 3; utime = 14, stime = 15
    let rest = &s[s.rfind(')')? + 2..];
    let f: Vec<&str> = rest.split_whitespace().collect();
    let ut: f64 = f.get(11)?.parse().ok()?;
    let stt: f64 = f.get(12)?.parse().ok()?;
    Some((ut + stt) / 100.0)
}

impl Watch {
    fn new(n: usize) -> Arc<Watch> {
        Arc::new(Watch { slots: (0..n).map(|_| Mutex::new(Slot { gen: 0, started: None, plan: None, tid: 0 })).collect() })
    }
    fn register(&self, w: usize) {
        self.slots[w].lock().unwrap().tid = current_tid();
    }
    fn enter(&self, w: usize, plan: Arc<Plan>) {
        let mut s = self.slots[w].lock().unwrap();
        s.gen += 1;
        s.started = Some(Instant::now());
        s.plan = Some(plan);
    }
    fn leave(&self, w: usize) {
        let mut s = self.slots[w].lock().unwrap();
        s.started = None;
        s.plan = None;
    }
}

pub const WATCHDOG_SECS: u64 = 30;
/// corpus plans run thousands of executions each
pub const WATCHDOG_SECS_CORPUS: u64 = 600;
/// per-plan limit in seconds of CPU TIME OF THE WORKER THREAD: base + 1 s per 5 KB of
/// document. CPU time, not wall time: a worker starved by other processes is not a
/// hanging library. (Wall time is only a last resort at 20x the limit.)
pub fn watchdog_limit(p: &Plan) -> u64 {
    if p.scenario.starts_with("corpus") {
        WATCHDOG_SECS_CORPUS
    } else {
        WATCHDOG_SECS + (p.doc.len() as u64) / 5_000
    }
}

fn spawn_watchdog(watch: Arc<Watch>, prop: &'static str, replay_dir: String) {
    std::thread::spawn(move || {
        // per slot: (generation seen, CPU seconds of the thread when that generation was first seen)
        let mut seen: Vec<(u64, f64)> = vec![(0, 0.0); watch.slots.len()];
        loop {
            std::thread::sleep(std::time::Duration::from_millis(500));
            for (i, slot) in watch.slots.iter().enumerate() {
                let s = slot.lock().unwrap();
                let (t, p) = match (s.started, &s.plan) {
                    (Some(t), Some(p)) => (t, p),
                    _ => continue,
                };
                let cpu_now = thread_cpu_secs(s.tid);
                if seen[i].0 != s.gen {
                    seen[i] = (s.gen, cpu_now.unwrap_or(0.0));
                    continue;
                }
                let limit = watchdog_limit(p);
                let cpu_on_plan = cpu_now.map(|c| c - seen[i].1);
                let stuck = match cpu_on_plan {
                    Some(c) => c >= limit as f64 || t.elapsed().as_secs() >= limit * 20,
                    None => t.elapsed().as_secs() >= limit * 4,
                };
                if stuck {
                    let v = Violation::new(
                        crate::registry::panic_prop_of(&p.scenario),
                        "non-termination",
                        format!("a single simulated run did not finish within {} s of CPU time of its worker thread", limit),
                    );
                    let path = write_replay(&replay_dir, &v, p, None);
                    if v.prop == prop {
                        println!("VIOLATION property={} replay={}", v.prop, path);
                        std::process::exit(1);
                    } else {
                        eprintln!("HARNESS ERROR: run stuck for {} s of CPU time in a check of {} (plan in {})", limit, prop, path);
                        std::process::exit(2);
                    }
                }
            }
        }
    });
}

// ---------------------------------------------------------------------------------
// known findings

#[derive(serde::Deserialize, Clone, Debug)]
pub struct Finding {
    pub status: String,
    pub property: String,
    pub kind: String,
    #[serde(default)]
    pub detail_contains: Vec<String>,
    #[serde(default)]
    pub scenario: Option<String>,
    pub what: String,
    #[serde(default)]
    pub commit: Option<String>,
}

#[derive(serde::Deserialize, Clone, Debug, Default)]
pub struct Findings {
    pub findings: Vec<Finding>,
}

pub fn load_findings(path: &str) -> Findings {
    match std::fs::read_to_string(path) {
        Ok(s) => match serde_json::from_str(&s) {
            Ok(f) => f,
            Err(e) => {
                eprintln!("HARNESS ERROR: cannot parse {}: {}", path, e);
                std::process::exit(2);
            }
        },
        Err(_) => Findings::default(),
    }
}

impl Findings {
    /// index of the *open* finding that covers this violation
    pub fn matches(&self, v: &Violation, plan: &Plan) -> Option<usize> {
        self.findings.iter().position(|f| {
            f.status == "open"
                && f.property == v.prop
                && f.kind == v.kind
                && f.scenario.as_deref().map(|s| s == plan.scenario).unwrap_or(true)
                && f.detail_contains.iter().all(|d| v.detail.contains(d.as_str()))
        })
    }
}

// ---------------------------------------------------------------------------------
// replay files

pub fn replay_json(v: &Violation, plan: &Plan, original: Option<&Plan>) -> Value {
    let mut j = json!({
        "property": v.prop,
        "kind": v.kind,
        "detail": v.detail,
        "variant": VARIANT,
        "scenario": plan.scenario,
        "base_seed": plan.base_seed,
        "run": plan.run,
        "config": cfg_text(plan.cfg),
        "doc_text": lossy(&plan.doc),
        "plan": serde_json::to_value(plan).unwrap(),
    });
    if let Some(o) = original {
        j["minimised_from"] = json!({
            "doc_len": o.doc.len(),
            "tokens": o.toks.len(),
            "ops": o.ops.len(),
            "cuts": o.stream.cuts.len(),
            "faults": o.stream.faults.len(),
            "builds": o.builds.len(),
            "plan": serde_json::to_value(o).unwrap(),
        });
    }
    j
}

pub fn write_replay(dir: &str, v: &Violation, plan: &Plan, original: Option<&Plan>) -> String {
    let _ = std::fs::create_dir_all(dir);
    let path = format!("{}/{}-{}-{}-{}-{}.json", dir, v.prop, plan.scenario, VARIANT, plan.base_seed, plan.run);
    let j = replay_json(v, plan, original);
    std::fs::write(&path, serde_json::to_string_pretty(&j).unwrap()).expect("write replay file");
    path
}

/// execute a replay file; returns exit code
pub fn replay(path: &str) -> i32 {
    let s = match std::fs::read_to_string(path) {
        Ok(s) => s,
        Err(e) => {
            eprintln!("cannot read {}: {}", path, e);
            return 2;
        }
    };
    let j: Value = match serde_json::from_str(&s) {
        Ok(j) => j,
        Err(e) => {
            eprintln!("cannot parse {}: {}", path, e);
            return 2;
        }
    };
    let plan: Plan = match serde_json::from_value(j["plan"].clone()) {
        Ok(p) => p,
        Err(e) => {
            eprintln!("cannot decode plan in {}: {}", path, e);
            return 2;
        }
    };
    if let Some(v) = j["variant"].as_str() {
        if v != VARIANT {
            eprintln!("note: replay file was produced by variant '{}', this binary is '{}'", v, VARIANT);
        }
    }
    let scen = match scenario_by_name(&plan.scenario) {
        Some(s) => s,
        None => {
            eprintln!("unknown scenario {}", plan.scenario);
            return 2;
        }
    };
    let prop = j["property"].as_str().unwrap_or("").to_string();
    let kind = j["kind"].as_str().unwrap_or("").to_string();
    // a replayed hang must not hang the replay: same wall-clock guard as the search
    {
        let (prop, kind, path) = (prop.clone(), kind.clone(), path.to_string());
        let limit = watchdog_limit(&plan);
        std::thread::spawn(move || {
            let t0 = Instant::now();
            loop {
                std::thread::sleep(std::time::Duration::from_millis(500));
                // the replay executes on the main thread only: process CPU time is its CPU time
                let cpu = thread_cpu_secs(0).unwrap_or(t0.elapsed().as_secs_f64());
                if cpu >= limit as f64 || t0.elapsed().as_secs() >= limit * 20 {
                    break;
                }
            }
            println!("  observed: the run did not finish within {} s of CPU time", limit);
            if kind == "non-termination" {
                println!("VIOLATION property={} replay={}", prop, path);
                std::process::exit(1);
            }
            println!("NOT REPRODUCED as recorded (kind={}), but the run hangs", kind);
            std::process::exit(1);
        });
    }
    let (prop, kind) = (prop.as_str(), kind.as_str());
    let mut st = Stats::default();
    let vs = exec_guarded(scen, &plan, &mut st);
    println!("replay of {}: scenario={} doc={:?}", path, plan.scenario, lossy(&plan.doc));
    for v in &vs {
        println!("  observed: property={} kind={} — {}", v.prop, v.kind, v.detail);
    }
    if vs.iter().any(|v| v.prop == prop && v.kind == kind) {
        println!("VIOLATION property={} replay={}", prop, path);
        1
    } else {
        println!("NOT REPRODUCED: property={} kind={} did not occur on this tree", prop, kind);
        0
    }
}

/// exec with stray library panics turned into violations (as the search does)
pub fn exec_guarded(scen: &dyn Scenario, plan: &Plan, st: &mut Stats) -> Vec<Violation> {
    match guard(|| scen.exec(plan, st)) {
        Ok(vs) => vs,
        Err(p) => match p.kind {
            PanicKind::Harness | PanicKind::Exec => harness_fail("scenario execution", &p, plan),
            _ => vec![Violation::new(
                scen.panic_prop(),
                if p.kind == PanicKind::Library { "panic" } else { "non-termination" },
                format!("panic at {}: {}", p.loc, p.msg),
            )],
        },
    }
}

// ---------------------------------------------------------------------------------
// shrinking

fn remove_range(p: &mut Plan, a: usize, b: usize) {
    let d = (b - a) as u32;
    let (a32, b32) = (a as u32, b as u32);
    p.doc.drain(a..b);
    let len = p.doc.len() as u32;
    let remap = |c: u32| -> u32 {
        if c <= a32 {
            c
        } else if c < b32 {
            a32
        } else {
            c - d
        }
    };
    let mut cuts: Vec<u32> = p.stream.cuts.iter().map(|&c| remap(c)).filter(|&c| c > 0 && c < len).collect();
    cuts.sort_unstable();
    cuts.dedup();
    p.stream.cuts = cuts;
    if let Some(e) = p.stream.eof_at {
        p.stream.eof_at = Some(remap(e).min(len));
    }
}

fn matching_end(toks: &[Tok], i: usize) -> Option<usize> {
    let mut depth = 0usize;
    for (j, t) in toks.iter().enumerate().skip(i + 1) {
        match t.k {
            TK::Start => depth += 1,
            // (an end tag marked as stray closes nothing)
            TK::End if t.attrs.is_empty() => {
                if depth == 0 {
                    return Some(j);
                }
                depth -= 1;
            }
            _ => {}
        }
    }
    None
}

fn generic_candidates(p: &Plan) -> Vec<Plan> {
    let mut out: Vec<Plan> = vec![];
    // --- structure first: big steps ---
    // every candidate is a clone of the plan: for plans with thousands of tokens / calls only
    // a sample of the positions is tried per round (the rounds repeat while progress is made)
    let tstep = (p.toks.len() / 100).max(1);
    let ostep = (p.ops.len() / 100).max(1);
    if !p.toks.is_empty() {
        let sp = crate::gen::spans(&p.toks);
        if p.toks.len() > 400 {
            // big steps for big plans: the first / second half of the tokens, the outer quarters
            let n = p.toks.len();
            let free_form = matches!(p.scenario.as_str(), "chunk" | "soup" | "fault" | "nest");
            for (a, b) in [(0, n / 2), (n / 2, n), (0, n / 4), (3 * n / 4, n), (n / 4, 3 * n / 4)] {
                // (only where the scenario's model does not need a well-nested document)
                if b > a && free_form {
                    let mut q = p.clone();
                    q.toks.drain(a..b);
                    remove_range(&mut q, sp[a].0, sp[b - 1].1);
                    out.push(q);
                }
            }
            // a run of start tags with their end tags (deep wrappers)
            let lead = p.toks.iter().take_while(|t| t.k == TK::Start).count();
            let trail = p.toks.iter().rev().take_while(|t| t.k == TK::End).count();
            let i = lead.min(trail);
            for k in [i, i / 2, i / 4] {
                if k >= 2 {
                    let mut q = p.clone();
                    q.toks.drain(n - k..n);
                    q.toks.drain(0..k);
                    remove_range(&mut q, sp[n - k].0, sp[n - 1].1);
                    remove_range(&mut q, sp[0].0, sp[k - 1].1);
                    out.push(q);
                }
            }
        }
        for i in (0..p.toks.len()).step_by(tstep) {
            // a start tag goes together with its end tag
            if p.toks[i].k == TK::Start {
                if let Some(j) = matching_end(&p.toks, i) {
                    // the whole element
                    let mut q = p.clone();
                    q.toks.drain(i..=j);
                    remove_range(&mut q, sp[i].0, sp[j].1);
                    out.push(q);
                    // only the two tags
                    let mut q = p.clone();
                    q.toks.remove(j);
                    q.toks.remove(i);
                    remove_range(&mut q, sp[j].0, sp[j].1);
                    remove_range(&mut q, sp[i].0, sp[i].1);
                    out.push(q);
                    continue;
                }
            }
            if p.toks[i].k == TK::End && p.scenario != "chunk" && p.scenario != "soup" && p.scenario != "fault" && p.scenario != "nest" {
                continue; // keep trees well-nested where a model needs it
            }
            let mut q = p.clone();
            q.toks.remove(i);
            remove_range(&mut q, sp[i].0, sp[i].1);
            out.push(q);
        }
        // simplify single tokens: drop attributes / trailing blanks
        for i in (0..p.toks.len()).step_by(tstep) {
            let t = &p.toks[i];
            let simple: Option<Vec<u8>> = match t.k {
                TK::Start => Some(format!("<{}>", t.name).into_bytes()),
                TK::Empty => Some(format!("<{}/>", t.name).into_bytes()),
                TK::End => Some(format!("</{}>", t.name).into_bytes()),
                TK::Text => Some(b"x".to_vec()),
                _ => None,
            };
            if let Some(s) = simple {
                if s != t.raw && s.len() <= t.raw.len() {
                    let mut q = p.clone();
                    let (a, b) = sp[i];
                    // replace bytes [a,b) by s: remove the surplus, then overwrite
                    let surplus = (b - a) - s.len();
                    remove_range(&mut q, a + s.len(), a + s.len() + surplus);
                    q.doc[a..a + s.len()].copy_from_slice(&s);
                    q.toks[i].raw = s;
                    q.toks[i].attrs.clear();
                    out.push(q);
                }
            }
        }
    } else if !p.doc.is_empty() && p.builds.is_empty() {
        let len = p.doc.len();
        let mut size = len / 2;
        // (every candidate is a copy of the document: at most 64 chunks per granularity for
        // big documents, down to single bytes only for small ones)
        let min_size = if len > 2048 { len / 64 } else { 1 };
        while size >= min_size.max(1) {
            let mut a = 0;
            while a < len {
                let b = (a + size).min(len);
                let mut q = p.clone();
                remove_range(&mut q, a, b);
                out.push(q);
                a += size;
            }
            if size == 1 {
                break;
            }
            size /= 2;
        }
    }
    // --- a token (or element) together with as many leading Read ops: keeps the
    //     later part of a call history aligned with the tokens it was aimed at ---
    if !p.toks.is_empty() && !p.ops.is_empty() && !p.ops.iter().any(|o| matches!(o, Op::Raw { .. })) {
        let base = out.len();
        for qi in 0..base {
            let removed = p.toks.len().saturating_sub(out[qi].toks.len());
            if removed == 0 || removed > 8 {
                continue;
            }
            let mut q = out[qi].clone();
            let mut left = removed;
            q.ops.retain(|o| {
                if left > 0 && matches!(o, Op::Read | Op::ReadResolved) {
                    left -= 1;
                    false
                } else {
                    true
                }
            });
            out.push(q);
        }
    }
    // --- caller script ---
    let has_raw = p.ops.iter().any(|o| matches!(o, Op::Raw { .. }));
    for i in (0..p.ops.len()).rev().step_by(ostep) {
        if has_raw && i == 0 {
            continue; // a raw-read script starts with a read_event (BOM sniff at the document start)
        }
        let mut q = p.clone();
        q.ops.remove(i);
        out.push(q);
    }
    if p.ops.len() > 2 {
        let mut q = p.clone();
        q.ops.truncate(p.ops.len() / 2);
        out.push(q);
    }
    // --- schedule ---
    if !p.stream.cuts.is_empty() {
        let mut q = p.clone();
        q.stream.cuts.clear();
        out.push(q);
        if p.stream.cuts.len() > 1 {
            let mut q = p.clone();
            q.stream.cuts.truncate(p.stream.cuts.len() / 2);
            out.push(q);
            let mut q = p.clone();
            q.stream.cuts.drain(..p.stream.cuts.len() / 2);
            out.push(q);
        }
        if p.stream.cuts.len() <= 24 {
            for i in 0..p.stream.cuts.len() {
                let mut q = p.clone();
                q.stream.cuts.remove(i);
                out.push(q);
            }
        }
    }
    for i in 0..p.stream.faults.len() {
        let mut q = p.clone();
        q.stream.faults.remove(i);
        out.push(q);
        let mut q = p.clone();
        match &mut q.stream.faults[i].fault {
            Fault::Eintr(n) if *n > 1 => {
                *n = 1;
                out.push(q);
            }
            Fault::Pending { n, defer } if *n > 1 || *defer > 0 => {
                *n = 1;
                *defer = 0;
                out.push(q);
            }
            _ => {}
        }
    }
    if p.stream.eof_at.is_some() {
        let mut q = p.clone();
        q.stream.eof_at = None;
        out.push(q);
    }
    if p.stream.keep_buf {
        let mut q = p.clone();
        q.stream.keep_buf = false;
        out.push(q);
    }
    if p.stream.grow {
        let mut q = p.clone();
        q.stream.grow = false;
        out.push(q);
    }
    let simpler = match p.stream.kind {
        SourceKind::TokioBufReader => Some(SourceKind::SimAsyncBufRead),
        SourceKind::SimAsyncBufRead => Some(SourceKind::SimBufRead),
        SourceKind::StdBufReader => Some(SourceKind::SimBufRead),
        _ => None,
    };
    if let Some(k) = simpler {
        let mut q = p.clone();
        q.stream.kind = k;
        if !k.is_async() {
            q.stream.faults.retain(|f| !matches!(f.fault, Fault::Pending { .. }));
        }
        out.push(q);
    }
    if p.scenario != "chunk" && p.scenario != "fault" && p.stream.kind != SourceKind::Slice && p.scenario != "de" {
        let mut q = p.clone();
        q.stream = Stream::slice();
        q.stream.eof_at = p.stream.eof_at;
        out.push(q);
    }
    // --- configuration towards the default ---
    for bit in 0..7u8 {
        let m = 1u8 << bit;
        if (p.cfg & m) != (CFG_DEFAULT & m) {
            let mut q = p.clone();
            q.cfg = (p.cfg & !m) | (CFG_DEFAULT & m);
            out.push(q);
        }
    }
    if p.reader == ReaderKind::Ns && p.scenario != "ns" {
        let mut q = p.clone();
        q.reader = ReaderKind::Plain;
        out.push(q);
    }
    // --- C09 workload ---
    for i in (0..p.builds.len()).rev() {
        let mut q = p.clone();
        q.builds.remove(i);
        out.push(q);
    }
    if !p.builds.is_empty() {
        let mut q = p.clone();
        q.pipe.capacity = 4096;
        q.pipe.accept = vec![255];
        q.pipe.wpend = vec![0];
        q.pipe.take = vec![255];
        q.pipe.rpend = vec![0];
        q.pipe.sched = vec![0];
        if q.pipe != p.pipe {
            out.push(q);
        }
        if p.pipe.indent.is_some() {
            let mut q = p.clone();
            q.pipe.indent = None;
            out.push(q);
        }
        if p.pipe.werr_at.is_some() {
            let mut q = p.clone();
            q.pipe.werr_at = None;
            out.push(q);
        }
    }
    out
}

pub const SHRINK_BUDGET: usize = 3000;

pub fn shrink(scen: &dyn Scenario, plan: &Plan, v: &Violation) -> (Plan, Violation, usize) {
    let mut best = plan.clone();
    best.enumerate = plan.enumerate && v.plan.is_none();
    let mut best_v = v.clone();
    let mut tried = 0usize;
    let mut scratch = Stats::default();
    // candidate executions cost as much as the plan is big: the budget shrinks with the plan
    // size (a function of the plan only, so minimisation stays repeatable)
    let size = plan.toks.len() + plan.ops.len() + plan.doc.len() / 16 + 1;
    let budget = (3_000_000 / size).clamp(200, SHRINK_BUDGET);
    'outer: loop {
        let mut cands = generic_candidates(&best);
        cands.extend(scen.shrink(&best));
        for c in cands {
            if tried >= budget {
                break 'outer;
            }
            tried += 1;
            let r = guard(|| scen.exec(&c, &mut scratch));
            let vs = match r {
                Ok(vs) => vs,
                Err(p) if p.kind == PanicKind::Library => vec![Violation::new(scen.panic_prop(), "panic", format!("panic at {}: {}", p.loc, p.msg))],
                Err(_) => continue, // candidate broke the harness' own assumptions: skip it
            };
            if let Some(found) = vs.into_iter().find(|x| x.prop == v.prop && x.kind == v.kind) {
                // a derived plan (fault enumeration) replaces the candidate
                best = found.plan.clone().unwrap_or(c);
                best_v = found;
                best_v.plan = None;
                continue 'outer;
            }
        }
        break;
    }
    (best, best_v, tried)
}

// ---------------------------------------------------------------------------------
// process isolation for plans that may abort the process

/// Execute `plan` in a child process (`qxsim exec-plan`, the plan on stdin) and return the
/// violations it reports. If the child is killed by a signal — a stack overflow ends in
/// SIGABRT/SIGSEGV, which no `catch_unwind` sees — that death is the violation.
pub fn exec_isolated(scen: &dyn Scenario, plan: &Plan) -> Vec<Violation> {
    use std::io::Write;
    use std::os::unix::process::ExitStatusExt;
    use std::process::{Command, Stdio};
    let fail = |what: String| -> ! {
        eprintln!("HARNESS ERROR (child process for an isolated plan): {}", what);
        std::process::exit(2);
    };
    let exe = std::env::current_exe().unwrap_or_else(|e| fail(format!("current_exe: {}", e)));
    let mut child = Command::new(exe)
        .arg("exec-plan")
        .env("QXSIM_CHILD", "1")
        .stdin(Stdio::piped())
        .stdout(Stdio::piped())
        .stderr(Stdio::null())
        .spawn()
        .unwrap_or_else(|e| fail(format!("spawn: {}", e)));
    let json = serde_json::to_vec(plan).unwrap_or_else(|e| fail(format!("encode plan: {}", e)));
    // (a child that died early closes the pipe: the write error is not the point then)
    let _ = child.stdin.take().map(|mut i| i.write_all(&json));
    let out = child.wait_with_output().unwrap_or_else(|e| fail(format!("wait: {}", e)));
    if let Some(sig) = out.status.signal() {
        return vec![Violation::new(
            scen.panic_prop(),
            "abort",
            format!("the process was killed by signal {} while executing this plan (a stack overflow ends like this; it cannot be caught or reported as an error)", sig),
        )];
    }
    match out.status.code() {
        Some(0) => {}
        other => fail(format!("child exited with {:?}: {}", other, String::from_utf8_lossy(&out.stdout))),
    }
    let mut vs = vec![];
    for line in String::from_utf8_lossy(&out.stdout).lines() {
        if let Ok(j) = serde_json::from_str::<Value>(line) {
            let prop = match j["prop"].as_str() {
                Some(p) => crate::registry::static_prop(p),
                None => continue,
            };
            vs.push(Violation::new(prop, j["kind"].as_str().unwrap_or("?"), j["detail"].as_str().unwrap_or("").to_string()));
        }
    }
    vs
}

/// `qxsim exec-plan`: the child side of `exec_isolated`
pub fn exec_plan_from_stdin() -> i32 {
    use std::io::Read;
    let mut s = String::new();
    if std::io::stdin().read_to_string(&mut s).is_err() {
        return 2;
    }
    let plan: Plan = match serde_json::from_str(&s) {
        Ok(p) => p,
        Err(e) => {
            println!("cannot decode plan: {}", e);
            return 2;
        }
    };
    let scen = match crate::registry::all_scenarios().into_iter().find(|s| s.name() == plan.scenario) {
        Some(s) => s,
        None => return 2,
    };
    // an ordinary thread with the default stack size, like the workers of the search
    let h = std::thread::Builder::new().stack_size(2 * 1024 * 1024).spawn(move || {
        install_panic_hook();
        let mut st = Stats::default();
        match guard(|| scen.exec(&plan, &mut st)) {
            Ok(vs) => vs,
            Err(p) if p.kind == PanicKind::Library => vec![Violation::new(scen.panic_prop(), "panic", format!("panic at {}: {}", p.loc, p.msg))],
            Err(p) => {
                println!("harness panic in child: {:?}", p);
                std::process::exit(2)
            }
        }
    });
    let vs = match h.map(|h| h.join()) {
        Ok(Ok(vs)) => vs,
        _ => return 2,
    };
    for v in vs {
        println!("{}", json!({"prop": v.prop, "kind": v.kind, "detail": v.detail}));
    }
    0
}

// ---------------------------------------------------------------------------------
// the search

pub struct Found {
    pub run: u64,
    pub plan: Plan,
    pub v: Violation,
    pub scen: &'static dyn Scenario,
}

pub struct SearchOut {
    pub stats: Stats,
    pub found: Option<Found>,
    pub known_hits: Vec<u64>,
    pub other_props: u64,
    pub per_scenario: Vec<(String, u64, u64)>,
}

pub fn search(spec: &CheckSpec, tier: Tier, base_seed: u64, workers: usize, scale: f64, findings: &Findings, replay_dir: &str) -> SearchOut {
    let watch = Watch::new(workers);
    spawn_watchdog(watch.clone(), spec.prop, replay_dir.to_string());
    let mut total = Stats::default();
    let mut found: Option<Found> = None;
    let known_hits: Vec<AtomicU64> = (0..findings.findings.len()).map(|_| AtomicU64::new(0)).collect();
    let other_props = AtomicU64::new(0);
    let mut per_scenario = vec![];
    for part in &spec.parts {
        let n = ((match tier {
            Tier::Quick => part.quick,
            Tier::Thorough => part.thorough,
        }) as f64
            * scale)
            .ceil() as u64;
        if n == 0 {
            continue;
        }
        // debugging aid (never set by ./check): run one scenario of the property only
        if let Ok(only) = std::env::var("QXSIM_ONLY") {
            if part.scen.name() != only {
                continue;
            }
        }
        let next = AtomicU64::new(0);
        let min_bad = AtomicU64::new(u64::MAX);
        let results: Mutex<Vec<(u64, Plan, Violation)>> = Mutex::new(vec![]);
        let merged: Mutex<Stats> = Mutex::new(Stats::default());
        const BLOCK: u64 = 64;
        let scen = part.scen;
        std::thread::scope(|sc| {
            for w in 0..workers {
                let watch = watch.clone();
                let (next, min_bad, results, merged, known_hits, other_props) =
                    (&next, &min_bad, &results, &merged, &known_hits, &other_props);
                sc.spawn(move || {
                    install_panic_hook();
                    watch.register(w);
                    let mut st = Stats::default();
                    loop {
                        let start = next.fetch_add(BLOCK, Ordering::SeqCst);
                        if start >= n || start > min_bad.load(Ordering::SeqCst) {
                            break;
                        }
                        for run in start..(start + BLOCK).min(n) {
                            if run > min_bad.load(Ordering::SeqCst) {
                                break;
                            }
                            let mut rng = Rng::new(run_seed(base_seed, scen.name(), run));
                            let plan = Arc::new(scen.gen(&mut rng, base_seed, run, tier));
                            watch.enter(w, plan.clone());
                            let r = guard(|| scen.exec(&plan, &mut st));
                            watch.leave(w);
                            st.plans += 1;
                            let vs = match r {
                                Ok(vs) => vs,
                                Err(p) => match p.kind {
                                    PanicKind::Harness | PanicKind::Exec => harness_fail("scenario execution", &p, &plan),
                                    _ => vec![Violation::new(
                                        scen.panic_prop(),
                                        if p.kind == PanicKind::Library { "panic" } else { "non-termination" },
                                        format!("panic at {}: {}", p.loc, p.msg),
                                    )],
                                },
                            };
                            if st.samples.len() < 2 && run % 97 == 3 {
                                st.samples.push(sample_json(&plan));
                            }
                            for v in vs {
                                if v.prop != spec.prop {
                                    other_props.fetch_add(1, Ordering::Relaxed);
                                    continue;
                                }
                                let vplan = v.plan.clone().unwrap_or_else(|| (*plan).clone());
                                if let Some(k) = findings.matches(&v, &vplan) {
                                    known_hits[k].fetch_add(1, Ordering::Relaxed);
                                    continue;
                                }
                                min_bad.fetch_min(run, Ordering::SeqCst);
                                results.lock().unwrap().push((run, (*plan).clone(), v));
                                break;
                            }
                        }
                    }
                    merged.lock().unwrap().merge(st);
                });
            }
        });
        let st = merged.into_inner().unwrap();
        per_scenario.push((scen.name().to_string(), st.plans, st.executions));
        total.merge(st);
        let mut res = results.into_inner().unwrap();
        res.sort_by_key(|r| r.0);
        if let Some((run, plan, v)) = res.into_iter().next() {
            found = Some(Found { run, plan, v, scen });
            break;
        }
    }
    SearchOut {
        stats: total,
        found,
        known_hits: known_hits.iter().map(|a| a.load(Ordering::Relaxed)).collect(),
        other_props: other_props.load(Ordering::Relaxed),
        per_scenario,
    }
}

pub fn sample_json(plan: &Plan) -> Value {
    json!({
        "scenario": plan.scenario,
        "run": plan.run,
        "doc_text": lossy(&plan.doc),
        "config": cfg_text(plan.cfg),
        "reader": format!("{:?}", plan.reader),
        "ops": plan.ops.iter().take(40).map(|o| format!("{:?}", o)).collect::<Vec<_>>(),
        "source": plan.stream.kind.name(),
        "bufreader_capacity": plan.stream.cap,
        "cuts": plan.stream.cuts.iter().take(64).collect::<Vec<_>>(),
        "keep_buf": plan.stream.keep_buf,
        "grow_on_refill": plan.stream.grow,
        "faults": plan.stream.faults.iter().map(|f| format!("{:?}", f)).collect::<Vec<_>>(),
        "eof_at": plan.stream.eof_at,
        "enumerate": plan.enumerate,
        "type_id": plan.type_id,
        "target_type": plan.shape.as_ref().map(crate::scen_dyn::describe),
        "builds": plan.builds.iter().take(16).map(|b| format!("{:?}", b)).collect::<Vec<_>>(),
        "pipe": if plan.builds.is_empty() { Value::Null } else { serde_json::to_value(&plan.pipe).unwrap() },
        "note": plan.note,
    })
}

// ---------------------------------------------------------------------------------
// one whole check

pub struct CheckArgs {
    pub prop: String,
    pub tier: Tier,
    pub seed: u64,
    pub workers: usize,
    pub scale: f64,
    pub evidence: Option<String>,
    /// write a partial result (for the second build variant) instead of the evidence file
    pub part_out: Option<String>,
    /// partial result of the other build variant to merge into the evidence
    pub part_in: Option<String>,
    pub findings: String,
    pub replay_dir: String,
}

pub fn run_check(a: &CheckArgs) -> i32 {
    install_panic_hook();
    let spec = match crate::registry::spec_for(&a.prop) {
        Some(s) => s,
        None => {
            eprintln!("no check for property {}", a.prop);
            return 2;
        }
    };
    let findings = load_findings(&a.findings);
    let t0 = Instant::now();
    let so = search(&spec, a.tier, a.seed, a.workers, a.scale, &findings, &a.replay_dir);
    let search_s = t0.elapsed().as_secs_f64();
    let mut exit = 0;
    let mut violations = 0;
    let mut violation_json = Value::Null;
    for (k, n) in so.known_hits.iter().enumerate() {
        if *n > 0 {
            let f = &findings.findings[k];
            println!("KNOWN-FINDING: property={} {} ({} runs hit it)", f.property, f.what, n);
        }
    }
    if let Some(f) = &so.found {
        violations = 1;
        let (small, small_v, tried) = shrink(f.scen, f.v.plan.as_ref().unwrap_or(&f.plan), &f.v);
        let path = write_replay(&a.replay_dir, &small_v, &small, Some(f.v.plan.as_ref().unwrap_or(&f.plan)));
        // replay in a fresh process must reproduce it exactly
        let exe = std::env::current_exe().expect("current_exe");
        let status = std::process::Command::new(exe).arg("replay").arg(&path).output();
        match status {
            Ok(o) if o.status.code() == Some(1) => {}
            Ok(o) => {
                eprintln!(
                    "HARNESS ERROR: replay of {} in a fresh process did not reproduce (exit {:?}): nondeterminism in the harness\n{}",
                    path,
                    o.status.code(),
                    String::from_utf8_lossy(&o.stdout)
                );
                return 2;
            }
            Err(e) => {
                eprintln!("HARNESS ERROR: cannot run replay: {}", e);
                return 2;
            }
        }
        println!(
            "violation found by scenario {} at run {} (seed {}); minimised with {} candidate executions",
            f.scen.name(),
            f.run,
            a.seed,
            tried
        );
        println!("  kind: {}", small_v.kind);
        println!("  {}", small_v.detail);
        println!("  document: {:?}", lossy(&small.doc));
        println!("VIOLATION property={} replay={}", small_v.prop, path);
        violation_json = json!({"kind": small_v.kind, "detail": small_v.detail, "replay": path, "run": f.run, "scenario": f.scen.name()});
        exit = 1;
    }
    let wall = t0.elapsed().as_secs_f64();
    let st = &so.stats;
    let mut fault_counts = serde_json::Map::new();
    let mut phase_counts = serde_json::Map::new();
    let mut source_counts = serde_json::Map::new();
    let mut other_counts = serde_json::Map::new();
    for (k, v) in &st.counters {
        if let Some(r) = k.strip_prefix("fault.") {
            fault_counts.insert(r.to_string(), json!(v));
        } else if let Some(r) = k.strip_prefix("phase.") {
            phase_counts.insert(r.to_string(), json!(v));
        } else if let Some(r) = k.strip_prefix("source.") {
            source_counts.insert(r.to_string(), json!(v));
        } else {
            other_counts.insert(k.clone(), json!(v));
        }
    }
    let mut hits = serde_json::Map::new();
    for (k, v) in &st.hits {
        hits.insert(k.to_string(), json!(v));
    }
    let mut samples = st.samples.clone();
    if samples.is_empty() {
        // always show at least one concrete case
        let scen = spec.parts[0].scen;
        let mut rng = Rng::new(run_seed(a.seed, scen.name(), 0));
        samples.push(sample_json(&scen.gen(&mut rng, a.seed, 0, a.tier)));
    }
    let mut coverage = json!({
        "evaluations": st.executions,
        "plans": st.plans,
        "distinct_plans": st.distinct.len(),
        "distinct_nontrivial": st.nontrivial.len(),
        "distinct_schedules_executed": st.schedules.len(),
        "distinct_counts_are_lower_bounds_when_above": crate::core::SET_CAP,
        "distinct_schedules_measure": "number of distinct hashes of what actually happened at the seam: for reader scenarios the recorded trace (caller op, refill call index, position, action data/eof/eintr/pending/error, length) of each streamed run; for the pipe scenario the executor's sequence of task picks together with the number of write and refill calls; for the serde scenario (document, cut set, number of source calls)",
        "rule": spec.rule,
        "samples": samples,
        "exhaustive": false,
        "variant": VARIANT,
        "runs_per_hour": if search_s > 0.0 { (st.executions as f64 / search_s * 3600.0) as u64 } else { 0 },
        "plans_per_hour": if search_s > 0.0 { (st.plans as f64 / search_s * 3600.0) as u64 } else { 0 },
        "seeds": {"base_seed": a.seed, "derivation": "run seed = mix(base_seed, scenario name, run index); run indices 0..n per scenario",
                  "per_scenario": so.per_scenario.iter().map(|(n, p, e)| json!({"scenario": n, "run_indices": format!("0..{}", p), "plans": p, "executions": e})).collect::<Vec<_>>() },
        "simulated_time_ticks": st.ticks,
        "fault_counts_fired": fault_counts,
        "fault_phase_reach": phase_counts,
        "neighbourhood_hits": hits,
        "source_kind_counts": source_counts,
        "other_counters": other_counts,
        "max_source_calls_per_100_input_bytes_plus_steps": st.max_refill_ratio_x100,
        "determinism_digest": format!("{:016x}", st.digest),
        "workers": a.workers,
        "violations_of_other_properties_seen": so.other_props,
        "components_real": spec.real,
        "components_stub": spec.stub,
        "violation": violation_json,
    });
    let mut total_violations = violations;
    if let Some(pi) = &a.part_in {
        if let Ok(s) = std::fs::read_to_string(pi) {
            if let Ok(part) = serde_json::from_str::<Value>(&s) {
                let pe = part["coverage"]["evaluations"].as_u64().unwrap_or(0);
                let pn = part["coverage"]["distinct_nontrivial"].as_u64().unwrap_or(0);
                coverage["evaluations"] = json!(st.executions + pe);
                coverage["evaluations_by_variant"] = json!({"plain": st.executions, "enc": pe});
                coverage["distinct_nontrivial_by_variant"] = json!({"plain": st.nontrivial.len(), "enc": pn, "note": "the two variants run the same plans against differently configured builds of the library; the headline number counts the plain variant only"});
                total_violations += part["violations"].as_i64().unwrap_or(0);
                coverage["second_variant"] = part["coverage"].clone();
            }
            let _ = std::fs::remove_file(pi);
        }
    }
    let ev = json!({
        "property_id": spec.prop,
        "tier": match a.tier { Tier::Quick => "quick", Tier::Thorough => "thorough" },
        "seed": a.seed,
        "level": spec.level,
        "coverage": coverage,
        "assumptions": spec.assumptions,
        "wall_s": wall,
        "violations": total_violations,
    });
    let target = a.part_out.clone().or(a.evidence.clone());
    if let Some(path) = target {
        if let Some(dir) = std::path::Path::new(&path).parent() {
            let _ = std::fs::create_dir_all(dir);
        }
        std::fs::write(&path, serde_json::to_string_pretty(&ev).unwrap()).expect("write evidence");
    }
    println!(
        "{} [{}:{}] {}: {} plans, {} executions, {} distinct non-trivial, {:.1}s, digest {:016x}",
        if exit == 0 { "OK" } else { "FAIL" },
        VARIANT,
        match a.tier {
            Tier::Quick => "quick",
            Tier::Thorough => "thorough",
        },
        spec.prop,
        st.plans,
        st.executions,
        st.nontrivial.len(),
        wall,
        st.digest
    );
    exit
}
