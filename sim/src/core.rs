//! Shared machinery: violations, statistics, panic capture, the Scenario trait.

use std::cell::RefCell;
use std::collections::{BTreeMap, HashSet};
use std::panic::{catch_unwind, AssertUnwindSafe};

use crate::plan::Plan;
use crate::rng::Rng;

#[derive(Clone, Debug)]
pub struct Violation {
    pub prop: &'static str,
    /// stable class of the violation; shrinking keeps (prop, kind) fixed
    pub kind: String,
    pub detail: String,
    /// the concrete plan that shows it, when it differs from the executed one
    /// (fault enumeration derives one plan per fault point)
    pub plan: Option<Plan>,
}

impl Violation {
    pub fn new(prop: &'static str, kind: &str, detail: String) -> Violation {
        Violation { prop, kind: kind.to_string(), detail, plan: None }
    }
}

#[derive(Default, Clone, Debug)]
pub struct Stats {
    /// library executions (one read-to-Eof run, one from_str call, one pipeline ...)
    pub executions: u64,
    pub plans: u64,
    pub ticks: u64,
    pub counters: BTreeMap<String, u64>,
    pub hits: BTreeMap<&'static str, u64>,
    pub distinct: HashSet<u64>,
    pub nontrivial: HashSet<u64>,
    /// distinct schedules actually executed (hash of the seam trace / task-pick sequence)
    pub schedules: HashSet<u64>,
    pub digest: u64,
    pub samples: Vec<serde_json::Value>,
    pub max_refill_ratio_x100: u64,
}

/// per worker; the merged sets hold at most workers x this (memory: ~40 bytes per entry).
/// Counts reported from capped sets are lower bounds.
pub const SET_CAP: usize = 1_500_000;

impl Stats {
    pub fn bump(&mut self, k: &str) {
        self.add(k, 1)
    }
    pub fn add(&mut self, k: &str, n: u64) {
        if n == 0 {
            return;
        }
        if let Some(v) = self.counters.get_mut(k) {
            *v += n;
        } else {
            self.counters.insert(k.to_string(), n);
        }
    }
    pub fn note_distinct(&mut self, h: u64, nontrivial: bool) {
        if self.distinct.len() < SET_CAP {
            self.distinct.insert(h);
        }
        if nontrivial && self.nontrivial.len() < SET_CAP {
            self.nontrivial.insert(h);
        }
    }
    pub fn note_schedule(&mut self, h: u64) {
        if self.schedules.len() < SET_CAP {
            self.schedules.insert(h);
        }
    }
    pub fn merge(&mut self, o: Stats) {
        self.executions += o.executions;
        self.plans += o.plans;
        self.ticks += o.ticks;
        for (k, v) in o.counters {
            *self.counters.entry(k).or_insert(0) += v;
        }
        for (k, v) in o.hits {
            *self.hits.entry(k).or_insert(0) += v;
        }
        self.distinct.extend(o.distinct);
        self.nontrivial.extend(o.nontrivial);
        self.schedules.extend(o.schedules);
        // order-independent combination
        self.digest = self.digest.wrapping_add(o.digest);
        self.max_refill_ratio_x100 = self.max_refill_ratio_x100.max(o.max_refill_ratio_x100);
        self.samples.extend(o.samples);
        self.samples.sort_by_key(|s| s["run"].as_u64().unwrap_or(u64::MAX));
        self.samples.truncate(4);
    }
    pub fn fold_digest(&mut self, run: u64, h: u64) {
        self.digest = self.digest.wrapping_add(crate::rng::mix64(run ^ crate::rng::mix64(h)));
    }
}

#[derive(Clone, Copy, Debug, PartialEq, Eq)]
pub enum Tier {
    Quick,
    Thorough,
}

pub trait Scenario: Sync {
    fn name(&self) -> &'static str;
    fn gen(&self, rng: &mut Rng, base_seed: u64, run: u64, tier: Tier) -> Plan;
    /// deterministic; returns all violations found, of any property
    fn exec(&self, plan: &Plan, st: &mut Stats) -> Vec<Violation>;
    /// scenario-specific smaller variants of a failing plan (generic ones are added by the shrinker)
    fn shrink(&self, _plan: &Plan) -> Vec<Plan> {
        vec![]
    }
    /// property charged with a library panic that escapes the scenario's own guards
    fn panic_prop(&self) -> &'static str {
        "C03"
    }
}

// ---------------------------------------------------------------------------------
// panic capture

#[derive(Clone, Debug, PartialEq, Eq)]
pub enum PanicKind {
    /// panic raised in quick-xml (or in std/tokio/serde on its behalf)
    Library,
    /// panic raised by simulator code: a harness error, never a violation
    Harness,
    /// the stub's call budget was exceeded: non-termination
    Budget,
    /// the library broke the contract of a seam (e.g. consumed more than offered)
    Misuse,
    /// executor deadlock / tick budget
    Exec,
}

#[derive(Clone, Debug)]
pub struct PanicInfo {
    pub kind: PanicKind,
    pub msg: String,
    pub loc: String,
}

thread_local! {
    static LAST_PANIC: RefCell<Option<(String, String)>> = RefCell::new(None);
}

pub fn install_panic_hook() {
    std::panic::set_hook(Box::new(|info| {
        let loc = info
            .location()
            .map(|l| format!("{}:{}:{}", l.file(), l.line(), l.column()))
            .unwrap_or_else(|| "<unknown>".to_string());
        let msg = if let Some(s) = info.payload().downcast_ref::<&str>() {
            s.to_string()
        } else if let Some(s) = info.payload().downcast_ref::<String>() {
            s.clone()
        } else {
            "<non-string payload>".to_string()
        };
        LAST_PANIC.with(|p| *p.borrow_mut() = Some((msg, loc)));
    }));
}

/// run `f`, converting a panic into data
pub fn guard<T>(f: impl FnOnce() -> T) -> Result<T, PanicInfo> {
    LAST_PANIC.with(|p| *p.borrow_mut() = None);
    match catch_unwind(AssertUnwindSafe(f)) {
        Ok(v) => Ok(v),
        Err(payload) => {
            let (msg, loc) = LAST_PANIC.with(|p| p.borrow_mut().take()).unwrap_or_default();
            let kind = if let Some(b) = payload.downcast_ref::<crate::source::BudgetExceeded>() {
                return Err(PanicInfo { kind: PanicKind::Budget, msg: b.0.to_string(), loc });
            } else if let Some(m) = payload.downcast_ref::<crate::source::SeamMisuse>() {
                return Err(PanicInfo { kind: PanicKind::Misuse, msg: m.0.clone(), loc });
            } else if let Some(e) = payload.downcast_ref::<crate::rd::ExecFailure>() {
                return Err(PanicInfo { kind: PanicKind::Exec, msg: format!("{:?}", e.0), loc });
            } else if loc.contains("/verif/sim/") || loc.starts_with("src/") {
                PanicKind::Harness
            } else {
                PanicKind::Library
            };
            Err(PanicInfo { kind, msg, loc })
        }
    }
}

/// panic from harness code: abort the whole check with exit code 2
pub fn harness_fail(what: &str, p: &PanicInfo, plan: &Plan) -> ! {
    eprintln!("HARNESS ERROR ({}): {:?} at {} — {}", what, p.kind, p.loc, p.msg);
    eprintln!("plan: {}", serde_json::to_string(plan).unwrap_or_default());
    std::process::exit(2);
}

pub fn lossy(b: &[u8]) -> String {
    let s = String::from_utf8_lossy(b);
    if s.len() > 400 {
        let mut cut = 400;
        while !s.is_char_boundary(cut) {
            cut -= 1;
        }
        format!("{}… ({} bytes)", &s[..cut], b.len())
    } else {
        s.into_owned()
    }
}
