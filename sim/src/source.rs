//! Simulated byte sources: the seam between quick-xml and "the outside world".
//! One struct implements `BufRead`, `Read`, `AsyncBufRead` and `AsyncRead`; what
//! it does at every call is dictated by the Plan (`Stream`) and recorded in a `Log`.

use std::cell::RefCell;
use std::collections::VecDeque;
use std::io::{self, BufRead, Read};
use std::pin::Pin;
use std::rc::Rc;
use std::task::{Context, Poll, Waker};

use tokio::io::{AsyncBufRead, AsyncRead, ReadBuf};

use crate::plan::{Fault, FaultAt, SourceKind, Stream, ERR_KINDS};

/// panic payload: the stub's call budget was exceeded (non-termination)
pub struct BudgetExceeded(pub &'static str);
/// panic payload: the library broke the contract of the seam
pub struct SeamMisuse(pub String);

pub const A_DATA: u8 = 0;
pub const A_EOF: u8 = 1;
pub const A_EINTR: u8 = 2;
pub const A_PENDING: u8 = 3;
pub const A_ERR: u8 = 4;

#[derive(Clone, Copy, Debug, PartialEq, Eq)]
pub struct Tr {
    /// index of the caller's operation during which the call happened
    pub op: u32,
    /// index of the non-faulting call (faults carry the index of the call they precede)
    pub call: u32,
    pub pos: u32,
    pub act: u8,
    pub len: u32,
}

#[derive(Default, Debug)]
pub struct Log {
    pub trace: Vec<Tr>,
    pub cur_op: u32,
    pub data_calls: u32,
    pub total_calls: u32,
    pub consumed: u64,
    /// highest offset ever offered to the library
    pub handed: u64,
    pub fired_eintr: u32,
    pub fired_pending: u32,
    pub fired_err: u32,
    pub hit_trunc_eof: bool,
    /// the early end was reported and the source then grew (non-sticky end of input)
    pub revived: bool,
    /// (op index, kind index, tag) of the injected hard error, once it fired
    pub err_fired: Option<(u32, u8, u64)>,
    pub budget: u32,
}

pub type LogRef = Rc<RefCell<Log>>;

pub fn new_log(budget: u32) -> LogRef {
    Rc::new(RefCell::new(Log { budget, ..Default::default() }))
}

/// Simulated time: deferred wake-ups. One scheduler step is one tick.
#[derive(Default)]
pub struct TimerState {
    pub now: u64,
    seq: u64,
    pending: Vec<(u64, u64, Waker)>,
}
#[derive(Clone, Default)]
pub struct Timers(pub Rc<RefCell<TimerState>>);

impl Timers {
    pub fn wake_after(&self, d: u64, w: Waker) {
        let mut t = self.0.borrow_mut();
        t.seq += 1;
        let due = t.now + d;
        let seq = t.seq;
        t.pending.push((due, seq, w));
    }
    /// fire everything due at or before `now`
    pub fn fire_due(&self) -> usize {
        let mut fired = vec![];
        {
            let mut t = self.0.borrow_mut();
            let now = t.now;
            let mut i = 0;
            while i < t.pending.len() {
                if t.pending[i].0 <= now {
                    fired.push(t.pending.remove(i));
                } else {
                    i += 1;
                }
            }
        }
        fired.sort_by_key(|f| (f.0, f.1));
        let n = fired.len();
        for f in fired {
            f.2.wake();
        }
        n
    }
    /// jump the clock to the next deferred wake-up; false if there is none
    pub fn jump(&self) -> bool {
        let mut t = self.0.borrow_mut();
        match t.pending.iter().map(|p| p.0).min() {
            Some(due) => {
                if due > t.now {
                    t.now = due;
                }
                true
            }
            None => false,
        }
    }
    pub fn tick(&self) {
        self.0.borrow_mut().now += 1;
    }
    pub fn now(&self) -> u64 {
        self.0.borrow().now
    }
}

enum Act {
    Eintr,
    Pending(u8),
    Err(u8),
}

pub struct SimSource {
    doc: Rc<Vec<u8>>,
    end: usize,
    pos: usize,
    avail_end: usize,
    cuts: Vec<u32>,
    cut_i: usize,
    grow: bool,
    revive: bool,
    faults: Vec<FaultAt>,
    fi: usize,
    queue: VecDeque<Act>,
    queued_for: Option<u32>,
    log: LogRef,
    timers: Timers,
    tag: u64,
}

enum Pre {
    Serve,
    Eintr,
    Pending,
    Err(io::Error),
}

impl SimSource {
    pub fn new(doc: Rc<Vec<u8>>, st: &Stream, log: LogRef, timers: Timers, tag: u64) -> SimSource {
        let end = st.eof_at.map(|e| (e as usize).min(doc.len())).unwrap_or(doc.len());
        let mut faults = st.faults.clone();
        faults.sort_by_key(|f| f.call);
        SimSource {
            doc,
            end,
            pos: 0,
            avail_end: 0,
            cuts: st.cuts.clone(),
            cut_i: 0,
            grow: st.grow,
            revive: st.revive,
            faults,
            fi: 0,
            queue: VecDeque::new(),
            queued_for: None,
            log,
            timers,
            tag,
        }
    }

    fn pre(&mut self, cx: Option<&mut Context<'_>>) -> Pre {
        let logrc = self.log.clone();
        let mut log = logrc.borrow_mut();
        log.total_calls += 1;
        if log.total_calls > log.budget {
            drop(log);
            std::panic::panic_any(BudgetExceeded("source refill budget"));
        }
        let call = log.data_calls;
        if self.queued_for != Some(call) {
            self.queued_for = Some(call);
            while self.fi < self.faults.len() && self.faults[self.fi].call <= call {
                if self.faults[self.fi].call == call {
                    match self.faults[self.fi].fault {
                        Fault::Eintr(n) => {
                            for _ in 0..n {
                                self.queue.push_back(Act::Eintr)
                            }
                        }
                        Fault::Pending { n, defer } => {
                            for _ in 0..n {
                                self.queue.push_back(Act::Pending(defer))
                            }
                        }
                        Fault::Err(k) => self.queue.push_back(Act::Err(k)),
                    }
                }
                self.fi += 1;
            }
        }
        loop {
            let op = log.cur_op;
            let pos = self.pos as u32;
            match self.queue.pop_front() {
                None => return Pre::Serve,
                Some(Act::Eintr) => {
                    log.fired_eintr += 1;
                    log.trace.push(Tr { op, call, pos, act: A_EINTR, len: 0 });
                    return Pre::Eintr;
                }
                Some(Act::Pending(defer)) => match &cx {
                    // a synchronous source cannot be pending: the fault is dropped
                    None => continue,
                    Some(cx) => {
                        log.fired_pending += 1;
                        log.trace.push(Tr { op, call, pos, act: A_PENDING, len: defer as u32 });
                        if defer == 0 {
                            cx.waker().wake_by_ref();
                        } else {
                            self.timers.wake_after(defer as u64, cx.waker().clone());
                        }
                        return Pre::Pending;
                    }
                },
                Some(Act::Err(k)) => {
                    log.fired_err += 1;
                    log.err_fired = Some((op, k, self.tag));
                    log.trace.push(Tr { op, call, pos, act: A_ERR, len: k as u32 });
                    let kind = ERR_KINDS[k as usize % ERR_KINDS.len()];
                    let msg = format!("qxsim-fault-{}", self.tag);
                    // k >= 5: the io::Error carries a quick_xml::Error as its payload, as an
                    // adapter does that feeds one reader from another (XML inside XML)
                    return Pre::Err(if (k as usize / ERR_KINDS.len()) % 2 == 1 {
                        io::Error::new(kind, quick_xml::Error::IllFormed(quick_xml::errors::IllFormedError::MissingEndTag(msg)))
                    } else {
                        io::Error::new(kind, msg)
                    });
                }
            }
        }
    }

    /// decide which slice is offered now
    fn offer(&mut self) -> (usize, usize) {
        let logrc = self.log.clone();
        let mut log = logrc.borrow_mut();
        let call = log.data_calls;
        log.data_calls += 1;
        let op = log.cur_op;
        if self.avail_end > self.pos {
            if self.grow {
                self.advance_avail();
            }
        } else if self.pos >= self.end {
            if self.end < self.doc.len() {
                log.hit_trunc_eof = true;
            }
            log.trace.push(Tr { op, call, pos: self.pos as u32, act: A_EOF, len: 0 });
            if self.revive && self.end < self.doc.len() {
                // the end just reported was not final: later calls find more data
                self.end = self.doc.len();
                log.revived = true;
            }
            return (self.pos, self.pos);
        } else {
            self.advance_avail();
        }
        log.handed = log.handed.max(self.avail_end as u64);
        log.trace.push(Tr {
            op,
            call,
            pos: self.pos as u32,
            act: A_DATA,
            len: (self.avail_end - self.pos) as u32,
        });
        (self.pos, self.avail_end)
    }

    fn advance_avail(&mut self) {
        let from = self.avail_end.max(self.pos);
        while self.cut_i < self.cuts.len() && (self.cuts[self.cut_i] as usize) <= from {
            self.cut_i += 1;
        }
        let next = if self.cut_i < self.cuts.len() { self.cuts[self.cut_i] as usize } else { self.end };
        self.avail_end = next.min(self.end);
    }

    fn do_consume(&mut self, amt: usize) {
        if amt > self.avail_end - self.pos {
            std::panic::panic_any(SeamMisuse(format!(
                "consume({}) but only {} bytes were offered",
                amt,
                self.avail_end - self.pos
            )));
        }
        self.pos += amt;
        self.log.borrow_mut().consumed += amt as u64;
    }
}

impl BufRead for SimSource {
    fn fill_buf(&mut self) -> io::Result<&[u8]> {
        match self.pre(None) {
            Pre::Serve => {
                let (a, b) = self.offer();
                Ok(&self.doc[a..b])
            }
            Pre::Eintr => Err(io::Error::new(io::ErrorKind::Interrupted, "qxsim-eintr")),
            Pre::Err(e) => Err(e),
            Pre::Pending => unreachable!(),
        }
    }
    fn consume(&mut self, amt: usize) {
        self.do_consume(amt)
    }
}

impl Read for SimSource {
    fn read(&mut self, buf: &mut [u8]) -> io::Result<usize> {
        match self.pre(None) {
            Pre::Serve => {
                let (a, b) = self.offer();
                let n = (b - a).min(buf.len());
                buf[..n].copy_from_slice(&self.doc[a..a + n]);
                self.do_consume(n);
                Ok(n)
            }
            Pre::Eintr => Err(io::Error::new(io::ErrorKind::Interrupted, "qxsim-eintr")),
            Pre::Err(e) => Err(e),
            Pre::Pending => unreachable!(),
        }
    }
}

impl AsyncBufRead for SimSource {
    fn poll_fill_buf(self: Pin<&mut Self>, cx: &mut Context<'_>) -> Poll<io::Result<&[u8]>> {
        let this = self.get_mut();
        match this.pre(Some(cx)) {
            Pre::Serve => {
                let (a, b) = this.offer();
                Poll::Ready(Ok(&this.doc[a..b]))
            }
            Pre::Eintr => Poll::Ready(Err(io::Error::new(io::ErrorKind::Interrupted, "qxsim-eintr"))),
            Pre::Err(e) => Poll::Ready(Err(e)),
            Pre::Pending => Poll::Pending,
        }
    }
    fn consume(self: Pin<&mut Self>, amt: usize) {
        self.get_mut().do_consume(amt)
    }
}

impl AsyncRead for SimSource {
    fn poll_read(self: Pin<&mut Self>, cx: &mut Context<'_>, buf: &mut ReadBuf<'_>) -> Poll<io::Result<()>> {
        let this = self.get_mut();
        match this.pre(Some(cx)) {
            Pre::Serve => {
                let (a, b) = this.offer();
                let n = (b - a).min(buf.remaining());
                buf.put_slice(&this.doc[a..a + n]);
                this.do_consume(n);
                Poll::Ready(Ok(()))
            }
            Pre::Eintr => Poll::Ready(Err(io::Error::new(io::ErrorKind::Interrupted, "qxsim-eintr"))),
            Pre::Err(e) => Poll::Ready(Err(e)),
            Pre::Pending => Poll::Pending,
        }
    }
}

pub type SyncSrc = Box<dyn BufRead>;
pub type AsyncSrc = Box<dyn AsyncBufRead + Unpin>;

pub fn make_sync(doc: Rc<Vec<u8>>, st: &Stream, log: LogRef, tag: u64) -> SyncSrc {
    let s = SimSource::new(doc, st, log, Timers::default(), tag);
    match st.kind {
        SourceKind::StdBufReader => Box::new(io::BufReader::with_capacity(st.cap.max(1) as usize, s)),
        _ => Box::new(s),
    }
}

pub fn make_async(doc: Rc<Vec<u8>>, st: &Stream, log: LogRef, timers: Timers, tag: u64) -> AsyncSrc {
    let s = SimSource::new(doc, st, log, timers, tag);
    match st.kind {
        SourceKind::TokioBufReader => {
            Box::new(tokio::io::BufReader::with_capacity(st.cap.max(1) as usize, s))
        }
        _ => Box::new(s),
    }
}
