//! The simulated caller's handle on a quick-xml reader of any flavour
//! (plain / namespace-aware  x  slice / BufRead / AsyncBufRead).
//! Every call returns owned data so outcomes of different runs can be compared.

use std::rc::Rc;

use quick_xml::events::Event;
use quick_xml::name::{PrefixDeclaration, QName, ResolveResult};
use quick_xml::reader::{Config, NsReader, Reader};
use quick_xml::Error;

use crate::exec::{block_on, ExecError};
use crate::plan::{apply_cfg, ReaderKind, Stream};
use crate::source::{make_async, make_sync, AsyncSrc, LogRef, SyncSrc, Timers};

/// panic payload: the executor found a deadlock or ran out of ticks
pub struct ExecFailure(pub ExecError);

/// owned, comparable rendering of a namespace resolution
#[derive(Clone, Debug, PartialEq, Eq, Hash)]
pub enum Res {
    Unbound,
    Bound(Vec<u8>),
    Unknown(Vec<u8>),
}

impl From<ResolveResult<'_>> for Res {
    fn from(r: ResolveResult<'_>) -> Res {
        match r {
            ResolveResult::Unbound => Res::Unbound,
            ResolveResult::Bound(ns) => Res::Bound(ns.into_inner().to_vec()),
            ResolveResult::Unknown(p) => Res::Unknown(p),
        }
    }
}

pub enum AnyReader<'d> {
    Slice(Reader<&'d [u8]>),
    Sync(Reader<SyncSrc>),
    Async(Reader<AsyncSrc>),
    NsSlice(NsReader<&'d [u8]>),
    NsSync(NsReader<SyncSrc>),
    NsAsync(NsReader<AsyncSrc>),
}

pub struct Rd<'d> {
    pub r: AnyReader<'d>,
    pub buf: Vec<u8>,
    pub keep_buf: bool,
    pub timers: Timers,
    pub max_ticks: u64,
    pub ticks: u64,
}

macro_rules! each {
    ($self:expr, $r:ident => $e:expr) => {
        match &$self.r {
            AnyReader::Slice($r) => $e,
            AnyReader::Sync($r) => $e,
            AnyReader::Async($r) => $e,
            AnyReader::NsSlice($r) => $e,
            AnyReader::NsSync($r) => $e,
            AnyReader::NsAsync($r) => $e,
        }
    };
}
macro_rules! each_mut {
    ($self:expr, $r:ident => $e:expr) => {
        match &mut $self.r {
            AnyReader::Slice($r) => $e,
            AnyReader::Sync($r) => $e,
            AnyReader::Async($r) => $e,
            AnyReader::NsSlice($r) => $e,
            AnyReader::NsSync($r) => $e,
            AnyReader::NsAsync($r) => $e,
        }
    };
}

fn run<F: std::future::Future>(f: F, timers: &Timers, max: u64) -> F::Output {
    match block_on(f, timers, max) {
        Ok(v) => v,
        Err(e) => std::panic::panic_any(ExecFailure(e)),
    }
}

impl<'d> Rd<'d> {
    /// Build the reader the Plan asks for. `doc` must outlive the reader for the
    /// slice flavour; `shared` is the same bytes for the streaming flavours.
    pub fn new(
        doc: &'d [u8],
        shared: &Rc<Vec<u8>>,
        st: &Stream,
        kind: ReaderKind,
        cfg: u8,
        log: &LogRef,
        tag: u64,
    ) -> Rd<'d> {
        use crate::plan::SourceKind as SK;
        let timers = Timers::default();
        let r = match (kind, st.kind) {
            (ReaderKind::Plain, SK::Str) => {
                let end = st.eof_at.map(|e| (e as usize).min(doc.len())).unwrap_or(doc.len());
                AnyReader::Slice(Reader::from_str(std::str::from_utf8(&doc[..end]).expect("Str source needs UTF-8")))
            }
            (ReaderKind::Ns, SK::Str) => {
                let end = st.eof_at.map(|e| (e as usize).min(doc.len())).unwrap_or(doc.len());
                AnyReader::NsSlice(NsReader::from_str(std::str::from_utf8(&doc[..end]).expect("Str source needs UTF-8")))
            }
            (ReaderKind::Plain, SK::Slice) => {
                let end = st.eof_at.map(|e| (e as usize).min(doc.len())).unwrap_or(doc.len());
                AnyReader::Slice(Reader::from_reader(&doc[..end]))
            }
            (ReaderKind::Ns, SK::Slice) => {
                let end = st.eof_at.map(|e| (e as usize).min(doc.len())).unwrap_or(doc.len());
                AnyReader::NsSlice(NsReader::from_reader(&doc[..end]))
            }
            (ReaderKind::Plain, k) if k.is_async() => {
                AnyReader::Async(Reader::from_reader(make_async(shared.clone(), st, log.clone(), timers.clone(), tag)))
            }
            (ReaderKind::Ns, k) if k.is_async() => {
                AnyReader::NsAsync(NsReader::from_reader(make_async(shared.clone(), st, log.clone(), timers.clone(), tag)))
            }
            (ReaderKind::Plain, _) => {
                AnyReader::Sync(Reader::from_reader(make_sync(shared.clone(), st, log.clone(), tag)))
            }
            (ReaderKind::Ns, _) => {
                AnyReader::NsSync(NsReader::from_reader(make_sync(shared.clone(), st, log.clone(), tag)))
            }
        };
        let max_ticks = log.borrow().budget as u64 * 2 + 64;
        let mut rd = Rd { r, buf: Vec::new(), keep_buf: st.keep_buf, timers, max_ticks, ticks: 0 };
        apply_cfg(rd.config_mut(), cfg);
        rd
    }

    pub fn config_mut(&mut self) -> &mut Config {
        each_mut!(self, r => r.config_mut())
    }
    pub fn config(&self) -> &Config {
        each!(self, r => r.config())
    }
    pub fn pos(&self) -> u64 {
        each!(self, r => r.buffer_position())
    }
    pub fn epos(&self) -> u64 {
        each!(self, r => r.error_position())
    }
    pub fn decoder(&self) -> quick_xml::encoding::Decoder {
        each!(self, r => r.decoder())
    }
    pub fn is_ns(&self) -> bool {
        matches!(self.r, AnyReader::NsSlice(_) | AnyReader::NsSync(_) | AnyReader::NsAsync(_))
    }
    pub fn is_slice(&self) -> bool {
        matches!(self.r, AnyReader::Slice(_) | AnyReader::NsSlice(_))
    }
    #[cfg(feature = "enc")]
    pub fn encoding_name(&self) -> &'static str {
        each!(self, r => r.decoder().encoding().name())
    }
    #[cfg(not(feature = "enc"))]
    pub fn encoding_name(&self) -> &'static str {
        "UTF-8"
    }

    fn prep(&mut self) {
        if !self.keep_buf {
            self.buf.clear();
        }
    }

    pub fn read(&mut self) -> Result<Event<'static>, Error> {
        self.prep();
        let (t, m) = (self.timers.clone(), self.max_ticks);
        match &mut self.r {
            AnyReader::Slice(r) => r.read_event().map(|e| e.into_owned()),
            AnyReader::Sync(r) => r.read_event_into(&mut self.buf).map(|e| e.into_owned()),
            AnyReader::Async(r) => run(r.read_event_into_async(&mut self.buf), &t, m).map(|e| e.into_owned()),
            AnyReader::NsSlice(r) => r.read_event().map(|e| e.into_owned()),
            AnyReader::NsSync(r) => r.read_event_into(&mut self.buf).map(|e| e.into_owned()),
            AnyReader::NsAsync(r) => run(r.read_event_into_async(&mut self.buf), &t, m).map(|e| e.into_owned()),
        }
    }

    /// NsReader::read_resolved_event*; on a plain reader falls back to `read`
    pub fn read_resolved(&mut self) -> Result<(Option<Res>, Event<'static>), Error> {
        self.prep();
        let (t, m) = (self.timers.clone(), self.max_ticks);
        match &mut self.r {
            AnyReader::NsSlice(r) => r.read_resolved_event().map(|(n, e)| (Some(n.into()), e.into_owned())),
            AnyReader::NsSync(r) => r
                .read_resolved_event_into(&mut self.buf)
                .map(|(n, e)| (Some(n.into()), e.into_owned())),
            AnyReader::NsAsync(r) => run(r.read_resolved_event_into_async(&mut self.buf), &t, m)
                .map(|(n, e)| (Some(n.into()), e.into_owned())),
            _ => self.read().map(|e| (None, e)),
        }
    }

    /// read_to_end / read_to_end_into / read_to_end_into_async
    pub fn skip(&mut self, end: &[u8]) -> Result<(u64, u64), Error> {
        self.prep();
        let (t, m) = (self.timers.clone(), self.max_ticks);
        let q = QName(end);
        let span = match &mut self.r {
            AnyReader::Slice(r) => r.read_to_end(q),
            AnyReader::Sync(r) => r.read_to_end_into(q, &mut self.buf),
            AnyReader::Async(r) => run(r.read_to_end_into_async(q, &mut self.buf), &t, m),
            AnyReader::NsSlice(r) => r.read_to_end(q),
            AnyReader::NsSync(r) => r.read_to_end_into(q, &mut self.buf),
            AnyReader::NsAsync(r) => run(r.read_to_end_into_async(q, &mut self.buf), &t, m),
        }?;
        Ok((span.start, span.end))
    }

    /// `n` raw bytes through `Reader::stream()` (plain readers only; `None` for NsReader,
    /// which does not expose `stream()` mutably)
    pub fn raw(&mut self, n: usize, via: u8) -> Option<Result<Vec<u8>, std::io::Error>> {
        let (t, m) = (self.timers.clone(), self.max_ticks);
        match &mut self.r {
            AnyReader::Slice(r) => Some(raw_sync(&mut r.stream(), n, via)),
            AnyReader::Sync(r) => Some(raw_sync(&mut r.stream(), n, via)),
            AnyReader::Async(r) => {
                let mut st = r.stream();
                Some(run(raw_async(&mut st, n, via), &t, m))
            }
            _ => None,
        }
    }

    /// read_text (slice flavours only)
    pub fn read_text(&mut self, end: &[u8]) -> Option<Result<String, Error>> {
        let q = QName(end);
        match &mut self.r {
            AnyReader::Slice(r) => Some(r.read_text(q).map(|c| c.into_owned())),
            AnyReader::NsSlice(r) => Some(r.read_text(q).map(|c| c.into_owned())),
            _ => None,
        }
    }

    pub fn resolve(&self, name: &[u8], attribute: bool) -> Option<(Res, Vec<u8>)> {
        macro_rules! go {
            ($r:expr) => {{
                let (res, local) = if attribute {
                    $r.resolve_attribute(QName(name))
                } else {
                    $r.resolve_element(QName(name))
                };
                Some((res.into(), local.into_inner().to_vec()))
            }};
        }
        match &self.r {
            AnyReader::NsSlice(r) => go!(r),
            AnyReader::NsSync(r) => go!(r),
            AnyReader::NsAsync(r) => go!(r),
            _ => None,
        }
    }

    /// Attributes::has_nil against this namespace reader
    pub fn has_nil(&self, e: &quick_xml::events::BytesStart<'_>) -> Option<bool> {
        match &self.r {
            AnyReader::NsSlice(r) => Some(e.attributes().has_nil(r)),
            AnyReader::NsSync(r) => Some(e.attributes().has_nil(r)),
            AnyReader::NsAsync(r) => Some(e.attributes().has_nil(r)),
            _ => None,
        }
    }

    /// in-scope prefix listing as (prefix or "" for default, uri), in iteration order
    pub fn prefixes(&self) -> Option<Vec<(Vec<u8>, Vec<u8>)>> {
        macro_rules! go {
            ($r:expr) => {{
                let it = $r.prefixes();
                Some(
                    it.map(|(p, ns)| {
                        let p = match p {
                            PrefixDeclaration::Default => vec![],
                            PrefixDeclaration::Named(n) => n.to_vec(),
                        };
                        (p, ns.into_inner().to_vec())
                    })
                    .collect(),
                )
            }};
        }
        match &self.r {
            AnyReader::NsSlice(r) => go!(r),
            AnyReader::NsSync(r) => go!(r),
            AnyReader::NsAsync(r) => go!(r),
            _ => None,
        }
    }
}

/// How an error is compared between runs: by its Debug rendering (the error type is
/// not PartialEq) plus a class used by the fault oracle.
#[derive(Clone, Debug, PartialEq, Eq, Hash)]
pub enum ErrClass {
    Io { kind: String, msg: String },
    Syntax,
    IllFormed,
    Other,
}

#[derive(Clone, Debug, PartialEq, Eq)]
pub enum Out {
    Ev(Event<'static>),
    Err { dbg: String, class: ErrClass },
    /// bytes obtained through Reader::stream()
    Raw(Vec<u8>),
}

impl Out {
    pub fn from(r: Result<Event<'static>, Error>) -> Out {
        match r {
            Ok(e) => Out::Ev(e),
            Err(e) => Out::from_err(&e),
        }
    }
    pub fn from_err(e: &Error) -> Out {
        let class = match e {
            Error::Io(io) => ErrClass::Io { kind: format!("{:?}", io.kind()), msg: io.to_string() },
            Error::Syntax(_) => ErrClass::Syntax,
            Error::IllFormed(_) => ErrClass::IllFormed,
            _ => ErrClass::Other,
        };
        Out::Err { dbg: format!("{:?}", e), class }
    }
    pub fn is_eof(&self) -> bool {
        matches!(self, Out::Ev(Event::Eof))
    }
    pub fn is_err(&self) -> bool {
        matches!(self, Out::Err { .. })
    }
    pub fn short(&self) -> String {
        match self {
            Out::Ev(e) => {
                let s = format!("{:?}", e);
                if s.len() > 200 {
                    format!("{}…", &s[..s.char_indices().take_while(|(i, _)| *i < 200).last().map(|(i, c)| i + c.len_utf8()).unwrap_or(0)])
                } else {
                    s
                }
            }
            Out::Err { dbg, .. } => format!("Err({})", dbg),
            Out::Raw(b) => format!("Raw({:?})", String::from_utf8_lossy(b)),
        }
    }
}

/// one caller step as recorded for comparison
#[derive(Clone, Debug, PartialEq, Eq)]
pub struct Step {
    pub out: Out,
    pub pos: u64,
    pub epos: u64,
    pub enc: &'static str,
}

fn raw_sync<S: std::io::Read + std::io::BufRead>(s: &mut S, n: usize, via: u8) -> Result<Vec<u8>, std::io::Error> {
    let mut buf = vec![0u8; n];
    match via % 5 {
        0 => {
            s.read_exact(&mut buf)?;
        }
        3 => {
            // Read::read_to_end appends: the caller's Vec is not empty (a header is already in it)
            let mut v = vec![b'h', b'd', b'r'];
            s.read_to_end(&mut v)?;
            buf = v.split_off(3);
        }
        4 => {
            // BufRead::read_until, also appending to a non-empty Vec
            let mut v = vec![b'h', b'd', b'r'];
            s.read_until(b'>', &mut v)?;
            buf = v.split_off(3);
        }
        1 => {
            let mut got = 0;
            while got < n {
                let avail = s.fill_buf()?;
                if avail.is_empty() {
                    break;
                }
                let k = avail.len().min(n - got);
                buf[got..got + k].copy_from_slice(&avail[..k]);
                s.consume(k);
                got += k;
            }
            buf.truncate(got);
        }
        _ => {
            let mut got = 0;
            while got < n {
                let k = s.read(&mut buf[got..])?;
                if k == 0 {
                    break;
                }
                got += k;
            }
            buf.truncate(got);
        }
    }
    Ok(buf)
}

async fn raw_async<S: tokio::io::AsyncRead + tokio::io::AsyncBufRead + Unpin>(s: &mut S, n: usize, via: u8) -> Result<Vec<u8>, std::io::Error> {
    use tokio::io::{AsyncBufReadExt, AsyncReadExt};
    let mut buf = vec![0u8; n];
    match via % 5 {
        0 => {
            s.read_exact(&mut buf).await?;
        }
        3 => {
            let mut v = vec![b'h', b'd', b'r'];
            s.read_to_end(&mut v).await?;
            buf = v.split_off(3);
        }
        4 => {
            let mut v = vec![b'h', b'd', b'r'];
            s.read_until(b'>', &mut v).await?;
            buf = v.split_off(3);
        }
        1 => {
            let mut got = 0;
            while got < n {
                let avail = s.fill_buf().await?;
                if avail.is_empty() {
                    break;
                }
                let k = avail.len().min(n - got);
                buf[got..got + k].copy_from_slice(&avail[..k]);
                s.consume(k);
                got += k;
            }
            buf.truncate(got);
        }
        _ => {
            let mut got = 0;
            while got < n {
                let k = s.read(&mut buf[got..]).await?;
                if k == 0 {
                    break;
                }
                got += k;
            }
            buf.truncate(got);
        }
    }
    Ok(buf)
}
