//! `chunk` (C02): the same bytes read from a slice, from a BufRead delivering
//! arbitrary pieces, and from an AsyncBufRead with arbitrary pieces and
//! pending/wake patterns must give the same events, errors and positions.
//! `soup` (C03): hostile inputs, early EOF at every byte, all accessors.

use std::rc::Rc;

use crate::common::*;
use crate::core::{Scenario, Stats, Tier, Violation};
use crate::gen::*;
use crate::plan::*;
use crate::rng::Rng;

/// document in one of the modes; returns (bytes, tokens if structure is known, note)
pub fn gen_doc(rng: &mut Rng, small: bool) -> (Vec<u8>, Vec<Tok>, String) {
    match rng.below(10) {
        0 | 1 | 2 => {
            let mut o = TreeOpts::plain();
            if small {
                o.max_toks = 12;
                o.max_depth = 3;
            }
            let mut t = gen_tree(rng, &o);
            let mut note = String::from("tree");
            if !small && rng.chance(1, 12) {
                note.push_str(&format!("; stretched: {}", stretch_tokens(rng, &mut t, true)));
            }
            (concat(&t), t, note)
        }
        3 | 4 => {
            let t = gen_soup(rng, if small { 6 } else { 14 }, true);
            (concat(&t), t, "soup".into())
        }
        5 | 6 | 7 => {
            let t = if rng.bool() {
                let mut o = TreeOpts::plain();
                o.max_toks = if small { 8 } else { 20 };
                gen_tree(rng, &o)
            } else {
                gen_soup(rng, if small { 4 } else { 8 }, true)
            };
            let mut d = concat(&t);
            let n = rng.range(1, 3);
            let note = mutate(rng, &mut d, n);
            (d, vec![], format!("mutated: {}", note))
        }
        _ => {
            let d = gen_bytes(rng, 12);
            (d, vec![], "bytes".into())
        }
    }
}

/// `corpus: true` reads the repository's sample documents (tests/documents/**) instead
/// of generating input; same execution and oracle
pub struct Chunk {
    pub corpus: bool,
}

/// sorted by path: run index -> document must not depend on directory order
pub fn corpus_docs() -> &'static Vec<(String, Vec<u8>)> {
    static DOCS: std::sync::OnceLock<Vec<(String, Vec<u8>)>> = std::sync::OnceLock::new();
    DOCS.get_or_init(|| {
        let mut v = vec![];
        let mut dirs = vec![std::path::PathBuf::from("/repo/tests/documents")];
        while let Some(d) = dirs.pop() {
            if let Ok(rd) = std::fs::read_dir(&d) {
                for e in rd.flatten() {
                    let p = e.path();
                    if p.is_dir() {
                        dirs.push(p);
                    } else if let Ok(b) = std::fs::read(&p) {
                        v.push((p.to_string_lossy().into_owned(), b));
                    }
                }
            }
        }
        v.sort();
        v
    })
}

/// corpus plan: one sample document, fixed piece sizes 1/2/3/7/64 or random cuts
pub fn gen_corpus_plan(rng: &mut Rng, p: &mut Plan) -> bool {
    let docs = corpus_docs();
    if docs.is_empty() {
        return false;
    }
    let (name, bytes) = &docs[(p.run as usize) % docs.len()];
    p.doc = bytes.clone();
    p.note = format!("corpus {}", name);
    p.cfg = rng.below(128) as u8;
    let (mut st, _) = gen_stream(rng, &p.doc, true);
    let len = p.doc.len();
    st.cuts = match rng.below(7) {
        0 => (1..len as u32).collect(),
        1 => (1..len).filter(|i| i % 2 == 0).map(|i| i as u32).collect(),
        2 => (1..len).filter(|i| i % 3 == 0).map(|i| i as u32).collect(),
        3 => (1..len).filter(|i| i % 7 == 0).map(|i| i as u32).collect(),
        4 => (1..len).filter(|i| i % 64 == 0).map(|i| i as u32).collect(),
        5 => (1..len).filter(|_| rng.chance(1, 16)).map(|i| i as u32).collect(),
        _ => (1..len).filter(|_| rng.chance(1, 200)).map(|i| i as u32).collect(),
    };
    if st.kind.is_async() {
        let calls = st.cuts.len().max(4);
        st.faults = (0..rng.range(1, 8))
            .map(|_| FaultAt { call: rng.below(calls) as u32, fault: Fault::Pending { n: rng.range(1, 3) as u8, defer: rng.below(4) as u8 } })
            .collect();
        st.faults.sort_by_key(|f| f.call);
    } else {
        st.faults.clear();
    }
    respect_sniff(&p.doc, &mut st);
    p.stream = st;
    true
}

fn all_cut_sets(len: usize) -> Vec<Vec<u32>> {
    let n = len.saturating_sub(1);
    let mut v = Vec::with_capacity(1 << n);
    for m in 0u32..(1u32 << n) {
        v.push((0..n as u32).filter(|i| m & (1 << i) != 0).map(|i| i + 1).collect());
    }
    v
}

fn compare(
    plan: &Plan,
    st_used: &Stream,
    reference: &RunRec,
    got: &RunRec,
    out: &mut Vec<Violation>,
) {
    if let Some(i) = first_diff(&reference.steps, &got.steps) {
        // a harness-side failure is never a violation
        let mut v = Violation::new(
            "C02",
            "stream-differs-from-slice",
            format!(
                "step {}: slice gave [{}], {} gave [{}]",
                i,
                show_step(reference.steps.get(i)),
                st_used.kind.name(),
                show_step(got.steps.get(i))
            ),
        );
        if *st_used != plan.stream {
            let mut p = plan.clone();
            p.stream = st_used.clone();
            p.enumerate = false;
            v.plan = Some(p);
        }
        out.push(v);
    } else if reference.panic.is_some() != got.panic.is_some() {
        let mut v = Violation::new(
            "C02",
            "stream-differs-from-slice",
            format!(
                "panic only on one side: slice {:?}, stream {:?}",
                reference.panic.as_ref().map(|p| &p.loc),
                got.panic.as_ref().map(|p| &p.loc)
            ),
        );
        if *st_used != plan.stream {
            let mut p = plan.clone();
            p.stream = st_used.clone();
            p.enumerate = false;
            v.plan = Some(p);
        }
        out.push(v);
    }
}

impl Scenario for Chunk {
    fn name(&self) -> &'static str {
        if self.corpus {
            "corpus"
        } else {
            "chunk"
        }
    }
    fn gen(&self, rng: &mut Rng, base_seed: u64, run: u64, _tier: Tier) -> Plan {
        let mut p = Plan::new(self.name(), base_seed, run);
        if self.corpus {
            p.reader = if rng.chance(1, 4) { ReaderKind::Ns } else { ReaderKind::Plain };
            if gen_corpus_plan(rng, &mut p) {
                return p;
            }
        }
        let (doc, toks, note) = gen_doc(rng, false);
        p.doc = doc;
        p.toks = toks;
        p.note = note;
        p.cfg = rng.below(128) as u8;
        p.reader = if rng.chance(1, 4) { ReaderKind::Ns } else { ReaderKind::Plain };
        let (st, mode) = gen_stream(rng, &p.doc, true);
        p.stream = st;
        p.note.push_str(&format!("; cuts: {}", mode));
        if rng.chance(1, 16)
            && std::str::from_utf8(&p.doc).is_ok()
            && !declares_encoding(&p.doc)
            && (!starts_with_signature(&p.doc) || p.doc.starts_with(&[0xEF, 0xBB, 0xBF]))
        {
            // the other in-memory constructor: Reader::from_str must agree with from_reader(&[u8])
            p.stream = Stream::slice();
            p.stream.kind = SourceKind::Str;
            return p;
        }
        if p.doc.len() >= 2 && p.doc.len() <= 10 && rng.chance(1, 3) {
            p.enumerate = true; // all 2^(n-1) cut sets
            p.stream.cuts.clear();
        } else if p.reader == ReaderKind::Plain && rng.chance(1, 8) {
            // call history with raw reads through Reader::stream() between events.
            // The first call is always a read_event: the BOM / encoding sniff happens in
            // the first read_event on whatever piece is current then, and C02's exception
            // (first piece >= 4 bytes) is only arranged for the start of the document.
            p.ops.push(Op::Read);
            for _ in 0..rng.range(2, 14) {
                p.ops.push(if rng.chance(1, 3) {
                    Op::Raw { n: *rng.pick(&[1u16, 2, 3, 5, 9, 16, 40, 300]), via: rng.below(5) as u8 }
                } else {
                    Op::Read
                });
            }
        }
        p
    }
    fn exec(&self, plan: &Plan, st: &mut Stats) -> Vec<Violation> {
        let mut out = vec![];
        let shared = Rc::new(plan.doc.clone());
        let tag = plan.run ^ 0x5eed;
        let mut slice_st = Stream::slice();
        slice_st.eof_at = plan.stream.eof_at;
        if !plan.ops.is_empty() {
            // scripted history (events and raw reads through stream()): same script on
            // the slice reader and on the streamed reader
            let reference = run_ops_on(plan, &shared, &slice_st, false);
            let got = run_ops_on(plan, &shared, &plan.stream, false);
            st.executions += 2;
            count_faults(&got, st);
            st.bump(&format!("source.{}", plan.stream.kind.name()));
            st.bump("chunk.with_raw_stream_reads");
            classify_cuts(&plan.doc, &plan.stream.cuts, &mut st.hits);
            monitor_violations(&reference, plan, "slice run", &mut out);
            monitor_violations(&got, plan, "streamed run", &mut out);
            compare(plan, &plan.stream, &reference, &got, &mut out);
            st.note_distinct(plan.hash64(), cut_inside_markup(&plan.doc, &plan.stream.cuts) || got.fired_pending > 0);
            st.fold_digest(plan.run, reference.hash().wrapping_mul(31).wrapping_add(got.hash()));
            return out;
        }
        let reference = run_reads(&plan.doc, &shared, &slice_st, plan.reader, plan.cfg, tag, false);
        st.executions += 1;
        monitor_violations(&reference, plan, "slice run", &mut out);
        if self.corpus && plan.reader == ReaderKind::Plain && plan.stream.eof_at.is_none() {
            // Reader::from_file: the one source constructor that builds its own BufReader.
            // A real (scratch) file, written completely before it is opened, or still empty
            // when it is opened and filled before the first read.
            for late in [false, true] {
                st.executions += 1;
                st.bump(if late { "source.from_file(filled after open)" } else { "source.from_file" });
                if let Some(d) = file_run_differs(plan, &reference, late) {
                    out.push(Violation::new(
                        "C02",
                        "stream-differs-from-slice",
                        format!("Reader::from_file ({}): {}", if late { "file still empty when opened, filled before the first read" } else { "complete file" }, d),
                    ));
                    break;
                }
            }
        }
        // Reader::from_str is only comparable for UTF-8 text without an encoding declaration
        // and without a UTF-16 style signature (with the `encoding` feature from_str locks UTF-8)
        let str_ok = std::str::from_utf8(&plan.doc).is_ok()
            && !declares_encoding(&plan.doc)
            && (!starts_with_signature(&plan.doc) || plan.doc.starts_with(&[0xEF, 0xBB, 0xBF]));
        let streams: Vec<Stream> = if plan.stream.kind == SourceKind::Str && !str_ok {
            vec![slice_st.clone()]
        } else if plan.enumerate {
            all_cut_sets(plan.doc.len())
                .into_iter()
                .map(|c| {
                    let mut s = plan.stream.clone();
                    s.cuts = c;
                    respect_sniff(&plan.doc, &mut s);
                    s
                })
                .collect()
        } else {
            vec![plan.stream.clone()]
        };
        let mut digest = reference.hash();
        for s in &streams {
            let got = run_reads(&plan.doc, &shared, s, plan.reader, plan.cfg, tag, false);
            st.executions += 1;
            count_faults(&got, st);
            st.bump(&format!("source.{}", s.kind.name()));
            classify_cuts(&plan.doc, &s.cuts, &mut st.hits);
            if s.keep_buf {
                st.bump("caller.keep_buf");
            }
            if s.grow {
                st.bump("caller.grow_on_refill");
            }
            let ratio = got.total_calls as u64 * 100 / (plan.doc.len() as u64 + got.steps.len() as u64 + 1);
            st.max_refill_ratio_x100 = st.max_refill_ratio_x100.max(ratio);
            monitor_violations(&got, plan, "streamed run", &mut out);
            compare(plan, s, &reference, &got, &mut out);
            digest = digest.wrapping_mul(31).wrapping_add(got.hash());
            let nontrivial = cut_inside_markup(&plan.doc, &s.cuts) || got.fired_pending > 0;
            let mut h = plan.hash64();
            if plan.enumerate {
                h ^= crate::rng::mix64(crate::plan::fnv_bytes(
                    &s.cuts.iter().flat_map(|c| c.to_le_bytes()).collect::<Vec<u8>>(),
                ));
            }
            st.note_distinct(h, nontrivial);
        }
        st.fold_digest(plan.run, digest);
        out
    }
}

/// C03's dedicated scenario
pub struct Soup;

impl Scenario for Soup {
    fn name(&self) -> &'static str {
        "soup"
    }
    fn gen(&self, rng: &mut Rng, base_seed: u64, run: u64, _tier: Tier) -> Plan {
        let mut p = Plan::new("soup", base_seed, run);
        let small = rng.bool();
        let (mut doc, _toks, note) = gen_doc(rng, small);
        p.note = note;
        if rng.chance(1, 3) {
            // all 256 byte values appear through this
            let n = rng.range(1, 3);
            for _ in 0..n {
                let i = rng.below(doc.len() + 1);
                doc.insert(i, rng.below(256) as u8);
            }
            p.note.push_str("; +random bytes");
        }
        p.doc = doc;
        p.cfg = rng.below(128) as u8;
        p.reader = if rng.chance(1, 3) { ReaderKind::Ns } else { ReaderKind::Plain };
        if rng.chance(1, 3) {
            p.stream = Stream::slice();
        } else {
            let (st, _) = gen_stream(rng, &p.doc, true);
            p.stream = st;
        }
        // early EOF: at every byte for short documents, at one random byte otherwise
        if p.doc.len() <= 24 && rng.chance(1, 2) {
            p.enumerate = true;
        } else if rng.chance(1, 3) && !p.doc.is_empty() {
            p.stream.eof_at = Some(rng.below(p.doc.len()) as u32);
        }
        // the early end is not final: the rest of the document shows up afterwards
        if p.stream.kind != SourceKind::Slice && (p.enumerate || p.stream.eof_at.is_some()) && rng.bool() {
            p.stream.revive = true;
        }
        // call histories: read_to_end* / read_text on arbitrary input, with the name of
        // the last start tag or an arbitrary one
        if rng.chance(1, 4) {
            p.enumerate = false;
            for _ in 0..rng.range(2, 16) {
                p.ops.push(match rng.below(6) {
                    0 | 1 => Op::Skip,
                    2 if p.stream.kind == SourceKind::Slice => Op::ReadText,
                    3 => Op::Flip { bit: 1 << rng.below(7), on: rng.bool() },
                    4 if rng.bool() => Op::Raw { n: *rng.pick(&[1u16, 2, 3, 5, 16, 40, 300]), via: rng.below(5) as u8 },
                    _ => Op::Read,
                });
            }
        }
        // a sprinkle of interrupts and one hard error, for the "all three source kinds" part
        if p.stream.kind != SourceKind::Slice && rng.chance(1, 4) {
            let calls = p.stream.cuts.len() as u32 * 2 + 6;
            p.stream.faults.push(FaultAt { call: rng.below(calls as usize) as u32, fault: Fault::Eintr(rng.range(1, 3) as u8) });
            if rng.chance(1, 3) {
                p.stream.faults.push(FaultAt { call: rng.below(calls as usize) as u32, fault: Fault::Err(rng.below(10) as u8) });
            }
            p.stream.faults.sort_by_key(|f| f.call);
        }
        p
    }
    fn exec(&self, plan: &Plan, st: &mut Stats) -> Vec<Violation> {
        let mut out = vec![];
        let shared = Rc::new(plan.doc.clone());
        if !plan.ops.is_empty() {
            let rec = run_ops_monitored(plan, &shared);
            st.executions += 1;
            count_faults(&rec, st);
            st.bump(&format!("source.{}", plan.stream.kind.name()));
            st.bump("soup.with_call_history");
            monitor_violations(&rec, plan, "soup history run", &mut out);
            st.note_distinct(plan.hash64(), rec.steps.iter().any(|s| !s.out.is_eof()));
            st.fold_digest(plan.run, rec.hash());
            return out;
        }
        let eofs: Vec<Option<u32>> = if plan.enumerate {
            (0..=plan.doc.len() as u32).map(Some).collect()
        } else {
            vec![plan.stream.eof_at]
        };
        let mut digest = 0u64;
        for e in eofs {
            let mut s = plan.stream.clone();
            s.eof_at = e;
            let rec = run_reads(&plan.doc, &shared, &s, plan.reader, plan.cfg, plan.run, true);
            st.executions += 1;
            count_faults(&rec, st);
            st.bump(&format!("source.{}", s.kind.name()));
            let before = out.len();
            monitor_violations(&rec, plan, "soup run", &mut out);
            if plan.enumerate {
                for v in &mut out[before..] {
                    let mut p = plan.clone();
                    p.enumerate = false;
                    p.stream.eof_at = e;
                    v.plan = Some(p);
                }
            }
            digest = digest.wrapping_mul(31).wrapping_add(rec.hash());
            let produced = rec.steps.iter().any(|s| !s.out.is_eof());
            let h = plan.hash64() ^ crate::rng::mix64(e.map(|x| x as u64 + 1).unwrap_or(0));
            st.note_distinct(h, produced);
        }
        st.fold_digest(plan.run, digest);
        out
    }
}

/// caller script of reads, skips, read_text and configuration flips on arbitrary
/// input; only the C03 monitors apply
fn run_ops_monitored(plan: &Plan, shared: &Rc<Vec<u8>>) -> RunRec {
    run_ops_on(plan, shared, &plan.stream, false)
}

/// read a scratch file through Reader::from_file and compare with the slice run
fn file_run_differs(plan: &Plan, reference: &RunRec, late: bool) -> Option<String> {
    use crate::rd::Out;
    use std::io::Write;
    let path = std::env::temp_dir().join(format!("qxsim-{}-{}-{}.xml", std::process::id(), plan.run, late as u8));
    let cleanup = |p: &std::path::Path| {
        let _ = std::fs::remove_file(p);
    };
    let fail = |what: String| -> ! {
        eprintln!("HARNESS ERROR (scratch file {}): {}", path.display(), what);
        std::process::exit(2);
    };
    let mut f = std::fs::File::create(&path).unwrap_or_else(|e| fail(format!("create: {}", e)));
    if !late {
        f.write_all(&plan.doc).and_then(|_| f.sync_all()).unwrap_or_else(|e| fail(format!("write: {}", e)));
    }
    let res = crate::core::guard(|| {
        let mut r = match quick_xml::Reader::from_file(&path) {
            Ok(r) => r,
            Err(e) => return Some(format!("from_file failed: {:?}", e)),
        };
        if late {
            if let Err(e) = f.write_all(&plan.doc).and_then(|_| f.sync_all()) {
                fail(format!("late write: {}", e));
            }
        }
        apply_cfg(r.config_mut(), plan.cfg);
        let mut buf = Vec::new();
        for (i, want) in reference.steps.iter().enumerate() {
            buf.clear();
            let got = Out::from(r.read_event_into(&mut buf).map(|e| e.into_owned()));
            let pos = r.buffer_position();
            if got != want.out || pos != want.pos {
                return Some(format!("step {}: slice gave [{} pos={}], the file reader gave [{} pos={}]", i, want.out.short(), want.pos, got.short(), pos));
            }
            if got.is_eof() || got.is_err() {
                break;
            }
        }
        None
    });
    cleanup(&path);
    match res {
        Ok(d) => d,
        Err(p) => Some(format!("panic at {}: {}", p.loc, p.msg)),
    }
}

/// run the plan's call history over stream `st`; with `stop_on_io` the caller gives up at
/// the first I/O error (fault histories: what comes after it is not compared)
pub fn run_ops_on(plan: &Plan, shared: &Rc<Vec<u8>>, st: &Stream, stop_on_io: bool) -> RunRec {
    use crate::core::guard;
    use crate::rd::{Out, Rd, Step};
    use crate::source::new_log;
    use quick_xml::events::Event;
    let doc = &plan.doc;
    let log = new_log(refill_budget(doc.len(), st) * 2);
    let mut steps: Vec<Step> = vec![];
    let mut monitor: Vec<(String, String)> = vec![];
    let mut ticks = 0;
    let eff_len = if st.revive { doc.len() } else { st.eof_at.map(|e| (e as usize).min(doc.len())).unwrap_or(doc.len()) };
    let has_raw = plan.ops.iter().any(|o| matches!(o, Op::Raw { .. }));
    let res = guard(|| {
        let mut rd = Rd::new(doc, shared, st, plan.reader, plan.cfg, &log, plan.run);
        let mut cfg = plan.cfg;
        let mut last_name: Vec<u8> = b"a".to_vec();
        let mut last_pos = 0u64;
        let mut terminal: Option<usize> = None;
        for (i, op) in plan.ops.iter().enumerate() {
            log.borrow_mut().cur_op = i as u32;
            let out = match op {
                Op::Flip { bit, on } => {
                    if *on {
                        cfg |= *bit
                    } else {
                        cfg &= !*bit
                    }
                    apply_cfg(rd.config_mut(), cfg);
                    continue;
                }
                Op::Skip | Op::ReadText => {
                    let r = if matches!(op, Op::Skip) { rd.skip(&last_name).map(|_| ()) } else { rd.read_text(&last_name).unwrap_or(Ok(String::new())).map(|_| ()) };
                    match r {
                        // (a successful skip is recorded as a pseudo outcome; it is not Eof)
                        Ok(()) => Out::Raw(vec![]),
                        Err(e) => {
                            let o = Out::from_err(&e);
                            if terminal.is_none() && matches!(o, Out::Err { class: crate::rd::ErrClass::Syntax, .. }) {
                                terminal = Some(i);
                            }
                            o
                        }
                    }
                }
                Op::Raw { n, via } => {
                    // never ask for more than is certainly left: what a short read_exact
                    // consumes is not specified
                    let avail = eff_len.saturating_sub(rd.pos() as usize + 1);
                    let n = (*n as usize).min(avail);
                    match if n == 0 { None } else { rd.raw(n, *via) } {
                        Some(Ok(b)) => Out::Raw(b),
                        Some(Err(e)) => Out::Err { dbg: format!("raw read: {:?}", e.kind()), class: crate::rd::ErrClass::Other },
                        None => Out::from(rd.read()),
                    }
                }
                _ => {
                    let r = rd.read();
                    if let Ok(e) = &r {
                        crate::accessors::exercise(e, rd.decoder());
                        if let Event::Start(s) = e {
                            last_name = s.name().as_ref().to_vec();
                        }
                    }
                    let o = Out::from(r);
                    // Eof is final, also across skips and configuration flips in between
                    if let Some(t) = terminal {
                        if !o.is_eof() {
                            monitor.push(("eof-not-final".into(), format!("op {} returned {} after the terminal outcome of op {}", i, o.short(), t)));
                        }
                    } else if o.is_eof() || matches!(o, Out::Err { class: crate::rd::ErrClass::Syntax, .. }) {
                        terminal = Some(i);
                    }
                    o
                }
            };
            let pos = rd.pos();
            let epos = rd.epos();
            if pos < last_pos {
                monitor.push(("position-decreased".into(), format!("op {} ({:?}): {} -> {}", i, op, last_pos, pos)));
            }
            last_pos = pos;
            let limit = if matches!(st.kind, SourceKind::Slice | SourceKind::Str) { eff_len as u64 } else { log.borrow().handed };
            if pos > limit {
                monitor.push(("position-beyond-input".into(), format!("op {} ({:?}): position {} > {} bytes handed out", i, op, pos, limit)));
            }
            if out.is_err() && epos > pos {
                monitor.push(("error-position-beyond-position".into(), format!("op {} ({:?}): error_position {} > buffer_position {}", i, op, epos, pos)));
            }
            let stop = (has_raw && (out.is_err() || out.is_eof())) || (stop_on_io && matches!(out, Out::Err { class: crate::rd::ErrClass::Io { .. }, .. }));
            steps.push(Step { out, pos, epos, enc: rd.encoding_name() });
            if stop {
                // how much of the source a failed or finished reader has consumed is not
                // part of any property: raw reads after that point compare nothing meaningful
                break;
            }
        }
        ticks = rd.timers.now();
    });
    let l = log.borrow();
    RunRec {
        steps,
        panic: res.err(),
        monitor,
        trace: l.trace.clone(),
        data_calls: l.data_calls,
        total_calls: l.total_calls,
        fired_eintr: l.fired_eintr,
        fired_pending: l.fired_pending,
        fired_err: l.fired_err,
        err_fired: l.err_fired,
        hit_trunc_eof: l.hit_trunc_eof,
        revived: l.revived,
        ticks,
    }
}

/// from_str locks the encoding to UTF-8 (with the `encoding` feature); a document that
/// declares any encoding is therefore not comparable between the two constructors
fn declares_encoding(doc: &[u8]) -> bool {
    let l: Vec<u8> = doc.iter().map(|b| b.to_ascii_lowercase()).collect();
    l.windows(8).any(|w| w == b"encoding")
}
