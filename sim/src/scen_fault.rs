//! `fault` (C18): ErrorKind::Interrupted at any refill call is invisible; any other
//! I/O error at a refill call ends the event stream exactly there and is handed to
//! the caller as Error::Io. The fault point is enumerated exhaustively for every
//! sampled (document, configuration, chunking, source kind).

use std::rc::Rc;

use quick_xml::events::Event;

use crate::common::*;
use crate::core::{Scenario, Stats, Tier, Violation};
use crate::gen::*;
use crate::plan::*;
use crate::rd::{ErrClass, Out};
use crate::rng::Rng;
use crate::scen_chunk::gen_doc;
use crate::source::{A_DATA, A_EOF};

pub struct FaultScen {
    pub corpus: bool,
}

fn strip_hard(st: &Stream) -> Stream {
    let mut s = st.clone();
    s.faults.retain(|f| matches!(f.fault, Fault::Pending { .. }));
    s
}

fn out_kind(o: &Out) -> &'static str {
    match o {
        Out::Ev(Event::Text(_)) => "Text",
        Out::Ev(Event::Start(_)) => "Start",
        Out::Ev(Event::End(_)) => "End",
        Out::Ev(Event::Empty(_)) => "Empty",
        Out::Ev(Event::Comment(_)) => "Comment",
        Out::Ev(Event::CData(_)) => "CData",
        Out::Ev(Event::PI(_)) => "PI",
        Out::Ev(Event::Decl(_)) => "Decl",
        Out::Ev(Event::DocType(_)) => "DocType",
        Out::Ev(Event::Eof) => "Eof",
        Out::Err { class: ErrClass::Syntax, .. } => "SyntaxErr",
        Out::Err { class: ErrClass::IllFormed, .. } => "IllFormedErr",
        Out::Err { .. } => "OtherErr",
        Out::Raw(_) => "Raw",
    }
}

/// which reader phase does refill call `c` of the baseline belong to?
fn phase(base: &RunRec, c: u32) -> String {
    let mut first_in_op = true;
    let mut op = 0u32;
    let mut ordinal = 0;
    for t in base.trace.iter().filter(|t| t.act == A_DATA || t.act == A_EOF) {
        if t.call == c {
            op = t.op;
            first_in_op = ordinal == 0 || base.trace.iter().filter(|x| (x.act == A_DATA || x.act == A_EOF) && x.op == t.op && x.call < c).count() == 0;
            break;
        }
        ordinal += 1;
    }
    if c == 0 {
        return "sniff(first call)".to_string();
    }
    let k = base.steps.get(op as usize).map(|s| out_kind(&s.out)).unwrap_or("?");
    let nth = base
        .trace
        .iter()
        .filter(|x| (x.act == A_DATA || x.act == A_EOF) && x.op == op && x.call < c)
        .count();
    let _ = first_in_op;
    format!("{}#{}", k, nth.min(3))
}

impl FaultScen {
    /// check one faulted run against the baseline
    fn judge(&self, plan: &Plan, s: &Stream, base: &RunRec, got: &RunRec, out: &mut Vec<Violation>) {
        let derived = |v: &mut Violation| {
            let mut p = plan.clone();
            p.stream = s.clone();
            p.enumerate = false;
            v.plan = Some(p);
        };
        let has_err = s.faults.iter().any(|f| matches!(f.fault, Fault::Err(_)));
        if !has_err || got.err_fired.is_none() {
            // interrupts (and pendings) only: must be invisible
            if let Some(i) = first_diff(&base.steps, &got.steps) {
                let mut v = Violation::new(
                    "C18",
                    "interrupt-not-transparent",
                    format!(
                        "step {}: fault-free run gave [{}], run with interrupts gave [{}]",
                        i,
                        show_step(base.steps.get(i)),
                        show_step(got.steps.get(i))
                    ),
                );
                derived(&mut v);
                out.push(v);
            } else if base.panic.is_some() != got.panic.is_some() {
                let mut v = Violation::new("C18", "interrupt-not-transparent", "panic on one side only".to_string());
                derived(&mut v);
                out.push(v);
            }
            return;
        }
        let (j, k, tag) = got.err_fired.unwrap();
        let j = j as usize;
        // events before the fault point: exactly the corresponding prefix
        let n = j.min(base.steps.len()).min(got.steps.len());
        if let Some(i) = first_diff(&base.steps[..n], &got.steps[..n]) {
            let mut v = Violation::new(
                "C18",
                "prefix-differs",
                format!(
                    "step {} (before the injected error at step {}): fault-free [{}], faulted [{}]",
                    i,
                    j,
                    show_step(base.steps.get(i)),
                    show_step(got.steps.get(i))
                ),
            );
            derived(&mut v);
            out.push(v);
            return;
        }
        let kind = format!("{:?}", ERR_KINDS[k as usize % ERR_KINDS.len()]);
        let want_msg = format!("qxsim-fault-{}", tag);
        match got.steps.get(j) {
            Some(step) => match &step.out {
                Out::Err { class: ErrClass::Io { kind: gk, msg }, .. } if *gk == kind && msg.contains(&want_msg) => {}
                other => {
                    let mut v = Violation::new(
                        "C18",
                        "io-error-not-reported",
                        format!(
                            "injected {} at refill call during step {}; the call returned [{}] instead of Error::Io({})",
                            kind,
                            j,
                            other.short(),
                            kind
                        ),
                    );
                    derived(&mut v);
                    out.push(v);
                }
            },
            None => {
                if got.panic.is_none() {
                    let mut v = Violation::new("C18", "io-error-not-reported", format!("no outcome recorded for step {}", j));
                    derived(&mut v);
                    out.push(v);
                }
            }
        }
        // "reported once ... no event is fabricated from partial data": whatever the caller
        // gets when it reads on after the error is either nothing more (Eof / errors) or —
        // for an implementation that can resume — exactly the fault-free continuation;
        // an event assembled from the leftover of the interrupted markup is neither
        let rest = &got.steps[(j + 1).min(got.steps.len())..];
        let quiet = rest.iter().all(|s| s.out.is_eof() || s.out.is_err());
        if !quiet {
            let cont = &base.steps[j.min(base.steps.len())..];
            let resumed = rest.len() <= cont.len() && rest.iter().zip(cont.iter()).all(|(a, b)| a.out == b.out);
            if !resumed {
                let bad = rest.iter().find(|s| !(s.out.is_eof() || s.out.is_err())).unwrap();
                let mut v = Violation::new(
                    "C18",
                    "event-fabricated-after-error",
                    format!(
                        "after the injected {} was reported at step {}, a later call returned [{}], which is neither Eof/an error nor the fault-free continuation [{}]",
                        kind,
                        j,
                        bad.out.short(),
                        cont.first().map(|s| s.out.short()).unwrap_or_default()
                    ),
                );
                derived(&mut v);
                out.push(v);
            }
        }
    }
}

impl Scenario for FaultScen {
    fn name(&self) -> &'static str {
        if self.corpus {
            "corpusfault"
        } else {
            "fault"
        }
    }
    fn gen(&self, rng: &mut Rng, base_seed: u64, run: u64, tier: Tier) -> Plan {
        let mut p = Plan::new(self.name(), base_seed, run);
        if self.corpus {
            p.reader = ReaderKind::Plain;
            if crate::scen_chunk::gen_corpus_plan(rng, &mut p) {
                // coarse pieces keep the number of refill calls (= fault points) moderate
                if p.stream.cuts.len() > 4000 {
                    let k = p.stream.cuts.len() / 2000;
                    p.stream.cuts = p.stream.cuts.iter().copied().step_by(k.max(1)).collect();
                }
                p.stream.faults.clear();
                p.enumerate = true;
                return p;
            }
        }
        let (doc, toks, note) = gen_doc(rng, true);
        p.doc = doc;
        p.toks = toks;
        p.note = note;
        p.cfg = rng.below(128) as u8;
        p.reader = if rng.chance(1, 5) { ReaderKind::Ns } else { ReaderKind::Plain };
        let (st, mode) = gen_stream(rng, &p.doc, true);
        p.stream = st;
        p.note.push_str(&format!("; cuts: {}", mode));
        let _ = tier;
        if rng.chance(1, 10) {
            // interrupt storms: an interrupt before every refill of a stretched document
            // read in tiny pieces, or one very long run of interrupts at one call
            let mut o = TreeOpts::plain();
            o.max_toks = 8;
            let mut t = gen_tree(rng, &o);
            let note = stretch_tokens(rng, &mut t, false);
            p.doc = concat(&t);
            p.toks = t;
            p.note = format!("tree; stretched: {}; interrupt storm", note);
            let (mut st, _) = gen_stream(rng, &p.doc, true);
            let k = *rng.pick(&[1usize, 1, 2, 3, 7]);
            st.cuts = (1..p.doc.len()).filter(|i| i % k == 0).map(|i| i as u32).collect();
            st.faults.retain(|f| matches!(f.fault, Fault::Pending { .. }));
            let calls = (p.doc.len() / k + 16) as u32;
            if rng.bool() {
                for c in 0..calls.min(6000) {
                    st.faults.push(FaultAt { call: c, fault: Fault::Eintr(1) });
                }
            } else {
                st.faults.push(FaultAt { call: rng.below(calls as usize) as u32, fault: Fault::Eintr(*rng.pick(&[65u8, 70, 130, 255])) });
            }
            st.faults.sort_by_key(|f| f.call);
            respect_sniff(&p.doc, &mut st);
            p.stream = st;
        } else if rng.chance(3, 4) {
            p.enumerate = true;
            if rng.chance(1, 4) && p.toks.iter().any(|t| t.k == TK::Start) {
                // a call history instead of plain reads: the refill calls made inside
                // read_to_end_into / read_to_end_into_async are fault points too
                let n = 2 * p.toks.len() + 3;
                let share = *rng.pick(&[2usize, 3, 5]);
                for i in 0..n {
                    p.ops.push(if i > 0 && rng.chance(1, share) { Op::Skip } else { Op::Read });
                }
                p.note.push_str("; call history with skips");
            }
        } else {
            // random multi-fault pattern
            let calls = (p.stream.cuts.len() * 2 + 6) as usize;
            for _ in 0..rng.range(2, 5) {
                p.stream.faults.push(FaultAt { call: rng.below(calls) as u32, fault: Fault::Eintr(rng.range(1, 3) as u8) });
            }
            if rng.chance(1, 2) {
                let c = rng.below(calls) as u32;
                if rng.bool() {
                    p.stream.faults.push(FaultAt { call: c, fault: Fault::Eintr(1) });
                }
                p.stream.faults.push(FaultAt { call: c, fault: Fault::Err(rng.below(10) as u8) });
            }
            p.stream.faults.sort_by_key(|f| f.call);
        }
        p
    }
    fn exec(&self, plan: &Plan, st: &mut Stats) -> Vec<Violation> {
        let mut out = vec![];
        let shared = Rc::new(plan.doc.clone());
        let tag = crate::rng::mix64(plan.run) >> 8;
        let base_st = strip_hard(&plan.stream);
        // plain reads to Eof, or the plan's call history (the caller gives up at an I/O error)
        let run = |s: &Stream| -> RunRec {
            if plan.ops.is_empty() {
                run_reads(&plan.doc, &shared, s, plan.reader, plan.cfg, tag, false)
            } else {
                crate::scen_chunk::run_ops_on(plan, &shared, s, true)
            }
        };
        if !plan.ops.is_empty() {
            st.bump("fault.plans_with_call_history");
        }
        let base = run(&base_st);
        st.executions += 1;
        monitor_violations(&base, plan, "fault-free run", &mut out);
        st.bump(&format!("source.{}", plan.stream.kind.name()));
        classify_cuts(&plan.doc, &plan.stream.cuts, &mut st.hits);
        let mut digest = base.hash();
        let mut variants: Vec<Stream> = vec![];
        if plan.enumerate {
            // thorough corpus documents can have thousands of calls: stride keeps it bounded
            let calls = base.data_calls;
            let stride = (calls / 400).max(1);
            let mut c = 0;
            while c < calls {
                for f in [Fault::Eintr(1), Fault::Eintr(3), Fault::Err(((c + plan.run as u32) % 10) as u8)] {
                    let mut s = base_st.clone();
                    // relative to a Pending planned for the same call the hard fault comes
                    // after it (even call index) or before it (odd): both orders occur
                    if c % 2 == 0 {
                        s.faults.push(FaultAt { call: c, fault: f });
                    } else {
                        s.faults.insert(0, FaultAt { call: c, fault: f });
                    }
                    s.faults.sort_by_key(|f| f.call);
                    variants.push(s);
                }
                c += stride;
            }
        } else {
            variants.push(plan.stream.clone());
        }
        for s in &variants {
            let got = run(s);
            st.executions += 1;
            count_faults(&got, st);
            monitor_violations(&got, plan, "faulted run", &mut out);
            self.judge(plan, s, &base, &got, &mut out);
            digest = digest.wrapping_mul(31).wrapping_add(got.hash());
            // reach: which reader phase did each hard fault hit
            let mut mid_event = false;
            for f in &s.faults {
                if matches!(f.fault, Fault::Pending { .. }) {
                    continue;
                }
                let ph = phase(&base, f.call);
                let kind = match f.fault {
                    Fault::Eintr(_) => "eintr",
                    Fault::Err(_) => "err",
                    _ => "",
                };
                st.bump(&format!("phase.{}@{}", kind, ph));
                if !ph.ends_with("#0") && f.call != 0 {
                    mid_event = true;
                }
            }
            let h = plan.hash64()
                ^ crate::rng::mix64(crate::plan::fnv_bytes(format!("{:?}", s.faults).as_bytes()));
            st.note_distinct(h, mid_event);
        }
        st.fold_digest(plan.run, digest);
        out
    }
}
