//! SplitMix64: the only source of randomness in the simulator.
//! Everything a run does is a pure function of the value this is seeded with.

#[derive(Clone, Debug)]
pub struct Rng(u64);

#[inline]
pub fn mix64(mut z: u64) -> u64 {
    z = z.wrapping_add(0x9E37_79B9_7F4A_7C15);
    z = (z ^ (z >> 30)).wrapping_mul(0xBF58_476D_1CE4_E5B9);
    z = (z ^ (z >> 27)).wrapping_mul(0x94D0_49BB_1331_11EB);
    z ^ (z >> 31)
}

/// seed of one run = f(base seed, scenario tag, run index)
pub fn run_seed(base: u64, scenario: &str, run: u64) -> u64 {
    let mut h = mix64(base ^ 0x5175_6963_6B58_4D4C);
    for b in scenario.bytes() {
        h = mix64(h ^ b as u64);
    }
    mix64(h ^ mix64(run))
}

impl Rng {
    pub fn new(seed: u64) -> Self {
        Rng(mix64(seed))
    }
    #[inline]
    pub fn next(&mut self) -> u64 {
        self.0 = self.0.wrapping_add(0x9E37_79B9_7F4A_7C15);
        let mut z = self.0;
        z = (z ^ (z >> 30)).wrapping_mul(0xBF58_476D_1CE4_E5B9);
        z = (z ^ (z >> 27)).wrapping_mul(0x94D0_49BB_1331_11EB);
        z ^ (z >> 31)
    }
    /// uniform in 0..n (n > 0)
    #[inline]
    pub fn below(&mut self, n: usize) -> usize {
        debug_assert!(n > 0);
        ((self.next() >> 11) % n as u64) as usize
    }
    /// uniform in lo..=hi
    #[inline]
    pub fn range(&mut self, lo: usize, hi: usize) -> usize {
        lo + self.below(hi - lo + 1)
    }
    /// true with probability num/den
    #[inline]
    pub fn chance(&mut self, num: usize, den: usize) -> bool {
        self.below(den) < num
    }
    #[inline]
    pub fn bool(&mut self) -> bool {
        self.next() & 1 == 1
    }
    pub fn pick<'a, T>(&mut self, xs: &'a [T]) -> &'a T {
        &xs[self.below(xs.len())]
    }
    pub fn fork(&mut self) -> Rng {
        Rng::new(self.next())
    }
}
