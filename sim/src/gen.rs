//! Workload generators. Everything is drawn from the run's PRNG only.

use crate::plan::{Fault, FaultAt, SourceKind, Stream, Tok, TK};
use crate::rng::Rng;

pub const NAMES: &[&str] = &["a", "ab", "a:b", "b", "abc", "p:a", "x", "a-b"];
pub const TEXTS: &[&str] = &[
    "x", " ", "\n ", "a b", "&amp;", "&lt;", "]]>", ">", "/>", "-->", "?>", "'", "\"", "t e x t", "\u{e9}",
    " x ", "&#x41;", "&unknown;", "&", "\t", "]", "-", "?", "x\ny", "=",
];
pub const ATTR_KEYS: &[&str] = &["k", "id", "p:k", "xml:lang", "k2", "a", "xml", "x"];
pub const ATTR_VALS: &[&str] = &[
    "", "v", ">", "/>", "a>b", "--", "]]>", "?>", "&amp;", " x ", "<", "</a>", "=", "&#65;", "\u{e9}", "/",
];
pub const COMMENTS: &[&str] = &[
    "", " c ", ">", "->", "-", "</a>", "<a>", "--", " -- ", "]]>", "?>", "'", "\"", "x", "->-", "a--", "-x->", "a-b->c", "->-x", "- ->",
    "!", "<!--",
];
pub const CDATAS: &[&str] = &[
    "", "x", "]", "]]", "]>", ">", "</a>", "<a>", "]]]", "&amp;", "-->", "?>", "'", "]] >", "a]", "\"", "<![CDATA[",
    "x[0]y[1]>z", "]a]>", "a]b]>c", "]>]", "] ]>", "]x]]", "a]>b]", "]-]>", "--]>",
];
pub const PIS: &[&str] = &[
    "pi", "pi x", "p ?", "p >", "p ?x>", "p ??", "s href='>'", "x?", "", "?", "p\n", "xml-x", "xmlx", "p -->",
    "p ]]>",
];
pub const DECLS: &[&str] = &[
    "<?xml version=\"1.0\"?>",
    "<?xml version='1.0' encoding=\"UTF-8\"?>",
    "<?xml version=\"1.0\" standalone='yes' ?>",
    "<?xml version=\"1.1\" encoding='utf-8' standalone=\"no\"?>",
    "<?xml?>",
    "<?xml ?>",
    "<?xml version='1.0' encoding='windows-1252'?>",
    "<?xml encoding='x?'?>",
];
/// doctype payloads that end exactly where the generator thinks they end
pub const DOCTYPES: &[&str] = &[
    "x",
    "x SYSTEM 'a.dtd'",
    "x [<!ENTITY e 'v'>]",
    "x [<!ELEMENT a (b)><!ATTLIST a k CDATA #IMPLIED>]",
    "html PUBLIC \"-//W3C//DTD\" \"x\"",
    "x [<!ENTITY lt2 \"&#38;#60;\">]",
    "x[]",
];
/// fragments used only where structure need not be known (soup)
pub const BROKEN: &[&str] = &[
    "<", "<a", "<!", "<!-", "<!--x", "<![CDATA[x", "<?x", "</", "</>", "<>", "< a>", "<!DOCTYPE", "<!x>",
    "<![cdata[x]]>", "<!DOCTYPE>", "<!DOCTYPE >", "<!DOCTYPE x [<!ENTITY e '>'>]>", "<!doctype html>", "<!-->",
    "<!--->", "<?>", "<??>", "<a b=>", "<a b='>", "<a b=\">", "<a 'x'>", "</a b='>'>", "<a/ >", "<a//>", "<!D>",
    "<![CDATA[]>", "<![CDATA[]]", "<!---->", "<!---", "\u{feff}", "<?xml", "<?xml version='1.0'", "<a\n",
    "<![", "<!---->x-->", "<!DOCTYPE x [<", "<a b=c d>", "<a b = c>", "<a b c='1'>", "<a b=\"1\" c d=e f='2'>", "<a =x>",
    "<a b='1'c='2'>", "<a b=\"1\"c>", "<a b='1' b='2' c=3 b>", "<a b=\"x\" =y z>", "<a\tb\n=\r'1'/>", "<?pi a=b c='d' e?>", "<!DOCTYPE x <a> <b>>", "]]>", "-->", "?>", "/>", "<a =''>", "<a a='1' a='2'>",
];

pub fn ws(rng: &mut Rng) -> &'static str {
    *rng.pick(&["", "", "", " ", "\n", "  ", "\t", " \r\n"])
}

pub fn tok_text(rng: &mut Rng) -> Tok {
    let mut s = String::new();
    for _ in 0..rng.range(1, 3) {
        s.push_str(*rng.pick(TEXTS));
    }
    Tok::new(TK::Text, s)
}

pub fn gen_attrs(rng: &mut Rng, ns: bool) -> (String, Vec<(String, String)>) {
    let mut raw = String::new();
    let mut attrs: Vec<(String, String)> = vec![];
    let n = if rng.chance(1, 2) { 0 } else { rng.range(1, 3) };
    for _ in 0..n {
        let (k, v) = if ns && rng.chance(2, 3) {
            let k = match rng.below(9) {
                0 | 1 => "xmlns".to_string(),
                2 => "xmlns:q".to_string(),
                3 => "xmlns:r".to_string(),
                // a prefix that begins with another prefix of the pool
                4 => "xmlns:pq".to_string(),
                _ => "xmlns:p".to_string(),
            };
            let v = if rng.chance(1, 5) { "" } else { *rng.pick(NS_URIS) };
            (k, v.to_string())
        } else if ns && rng.chance(1, 6) {
            // the text "xmlns" where it is NOT a declaration: inside a value, or as the local part
            // of a prefixed attribute name
            (
                rng.pick(&["k", "href", "p:xmlns", "q:xmlns", "note", "axmlns", "xmlnsx"]).to_string(),
                rng.pick(&["see the xmlns spec", "http://www.w3.org/2000/xmlns/", "xmlns:p='u2'", "xmlns", "a xmlns=b", "urn:wrong"]).to_string(),
            )
        } else if ns && rng.chance(1, 4) {
            // xsi:nil look-alikes: whether they count depends on what the prefix resolves to
            (rng.pick(&["p:nil", "q:nil", "r:nil", "nil", "p:nill", "pq:nil", "xmlx:nil"]).to_string(), rng.pick(&["true", "1", "false", "0", "x", " true", ""]).to_string())
        } else {
            (rng.pick(ATTR_KEYS).to_string(), rng.pick(ATTR_VALS).to_string())
        };
        if attrs.iter().any(|(ek, _)| *ek == k) {
            continue;
        }
        let q = if v.contains('"') {
            '\''
        } else if v.contains('\'') || rng.bool() {
            '"'
        } else {
            '\''
        };
        let sp1 = *rng.pick(&[" ", " ", " ", "\n", "  ", "\t", "\r\n", "\n\t"]);
        let eq = *rng.pick(&["=", "=", "=", " = ", "= ", " ="]);
        raw.push_str(&format!("{}{}{}{}{}{}", sp1, k, eq, q, v, q));
        attrs.push((k, v));
    }
    (raw, attrs)
}

pub const NS_URIS: &[&str] = &["u1", "u2", "urn:x", "http://www.w3.org/2001/XMLSchema-instance"];
pub const NS_NAMES: &[&str] = &["a", "b", "p:a", "p:b", "q:a", "r:c", "c", "q:c", "pq:a", "pq:c"];

pub fn tok_start(rng: &mut Rng, name: &str, ns: bool) -> Tok {
    let (araw, attrs) = gen_attrs(rng, ns);
    let raw = format!("<{}{}{}>", name, araw, ws(rng));
    Tok { k: TK::Start, raw: raw.into_bytes(), name: name.to_string(), attrs }
}
pub fn tok_empty(rng: &mut Rng, name: &str, ns: bool) -> Tok {
    let (araw, attrs) = gen_attrs(rng, ns);
    let raw = format!("<{}{}{}/>", name, araw, ws(rng));
    Tok { k: TK::Empty, raw: raw.into_bytes(), name: name.to_string(), attrs }
}
pub fn tok_end(rng: &mut Rng, name: &str, odd: bool) -> Tok {
    let tail = if odd && rng.chance(1, 12) { " x='>'" } else { "" };
    let raw = format!("</{}{}{}>", name, tail, ws(rng));
    Tok { k: TK::End, raw: raw.into_bytes(), name: name.to_string(), attrs: vec![] }
}
pub fn tok_comment(rng: &mut Rng) -> Tok {
    Tok::new(TK::Comment, format!("<!--{}-->", rng.pick(COMMENTS)))
}
pub fn tok_cdata(rng: &mut Rng) -> Tok {
    Tok::new(TK::CData, format!("<![CDATA[{}]]>", rng.pick(CDATAS)))
}
pub fn tok_pi(rng: &mut Rng) -> Tok {
    Tok::new(TK::PI, format!("<?{}?>", rng.pick(PIS)))
}
pub fn tok_decl(rng: &mut Rng) -> Tok {
    Tok::new(TK::Decl, *rng.pick(DECLS))
}
pub fn tok_doctype(rng: &mut Rng) -> Tok {
    let kw = if rng.chance(1, 6) { "doctype" } else { "DOCTYPE" };
    let sp = *rng.pick(&[" ", " ", "\n", "  "]);
    Tok::new(TK::DocType, format!("<!{}{}{}>", kw, sp, rng.pick(DOCTYPES)))
}

#[derive(Clone, Copy)]
pub struct TreeOpts {
    pub ns: bool,
    pub max_depth: usize,
    pub max_toks: usize,
    pub prolog: bool,
    /// allow `</a x='>'>` style end tags
    pub odd_ends: bool,
    /// misc tokens (comments, CDATA, PIs) between elements
    pub misc: bool,
    /// probability (of 8) that an element is written `<e/>`
    pub empty_of_8: usize,
}

impl TreeOpts {
    pub fn plain() -> TreeOpts {
        TreeOpts { ns: false, max_depth: 5, max_toks: 40, prolog: true, odd_ends: true, misc: true, empty_of_8: 2 }
    }
}

fn push_text(rng: &mut Rng, out: &mut Vec<Tok>) {
    if let Some(l) = out.last() {
        if l.k == TK::Text {
            return;
        }
    }
    out.push(tok_text(rng));
}

fn gen_elem(rng: &mut Rng, depth: usize, out: &mut Vec<Tok>, o: &TreeOpts) {
    let names = if o.ns { NS_NAMES } else { NAMES };
    let name = *rng.pick(names);
    if rng.chance(o.empty_of_8, 8) || out.len() + 2 > o.max_toks {
        out.push(tok_empty(rng, name, o.ns));
        return;
    }
    out.push(tok_start(rng, name, o.ns));
    let n = if depth >= o.max_depth { rng.below(2) } else { rng.below(5) };
    for _ in 0..n {
        if out.len() + 2 > o.max_toks {
            break;
        }
        match rng.below(10) {
            0..=4 => gen_elem(rng, depth + 1, out, o),
            5 | 6 => push_text(rng, out),
            7 if o.misc => out.push(tok_comment(rng)),
            8 if o.misc => out.push(tok_cdata(rng)),
            9 if o.misc => out.push(tok_pi(rng)),
            _ => push_text(rng, out),
        }
    }
    out.push(tok_end(rng, name, o.odd_ends));
}

/// well-nested document; the token list is its exact lexical structure
pub fn gen_tree(rng: &mut Rng, o: &TreeOpts) -> Vec<Tok> {
    let mut out = vec![];
    if o.prolog {
        if rng.chance(1, 3) {
            out.push(tok_decl(rng));
        }
        if rng.chance(1, 4) {
            out.push(Tok::new(TK::Text, *rng.pick(&["\n", " ", "\n  "])));
        }
        if rng.chance(1, 4) {
            out.push(tok_doctype(rng));
        }
        if o.misc && rng.chance(1, 5) {
            out.push(tok_comment(rng));
        }
    }
    let roots = if rng.chance(1, 6) { 2 } else { 1 };
    for i in 0..roots {
        if i > 0 && rng.bool() {
            push_text(rng, &mut out);
        }
        gen_elem(rng, 1, &mut out, o);
    }
    if o.prolog && rng.chance(1, 4) {
        match rng.below(3) {
            0 if o.misc => out.push(tok_comment(rng)),
            1 if o.misc => out.push(tok_pi(rng)),
            _ => out.push(Tok::new(TK::Text, *rng.pick(&["\n", " ", "x"]))),
        }
    }
    out
}

/// tokens in any order, unbalanced, with broken fragments
pub fn gen_soup(rng: &mut Rng, max: usize, broken: bool) -> Vec<Tok> {
    let n = rng.range(1, max);
    let mut out: Vec<Tok> = vec![];
    for _ in 0..n {
        let name = *rng.pick(NAMES);
        let t = match rng.below(if broken { 14 } else { 11 }) {
            0 | 1 => tok_start(rng, name, false),
            2 | 3 => tok_end(rng, name, true),
            4 => tok_empty(rng, name, false),
            5 => {
                if out.last().map(|l| l.k) == Some(TK::Text) {
                    tok_comment(rng)
                } else {
                    tok_text(rng)
                }
            }
            6 => tok_comment(rng),
            7 => tok_cdata(rng),
            8 => tok_pi(rng),
            9 => tok_decl(rng),
            10 => tok_doctype(rng),
            _ => Tok::new(TK::Raw, *rng.pick(BROKEN)),
        };
        out.push(t);
    }
    out
}

pub const ALPHABET: &[u8] = b"<>!?-[]/'\"= aDx&;#CT\n:";

pub fn gen_bytes(rng: &mut Rng, maxlen: usize) -> Vec<u8> {
    let n = rng.range(0, maxlen);
    let mut v = Vec::with_capacity(n);
    for _ in 0..n {
        let b = match rng.below(40) {
            0 => 0xEF,
            1 => 0xBB,
            2 => 0xBF,
            3 => 0x00,
            4 => 0xFF,
            5 => 0xFE,
            _ => *rng.pick(ALPHABET),
        };
        v.push(b);
    }
    // bias towards markup openers
    if n >= 2 && rng.chance(1, 2) {
        v[0] = b'<';
    }
    v
}

pub const FRAGMENTS: &[&str] = &[
    "<!--", "-->", "<![CDATA[", "]]>", "<?", "?>", "<!DOCTYPE ", "</", "/>", "<a>", "</a>", "--", "]]", "'", "\"",
    ">", "<", "<?xml ", " ", "=", "<!", "-", "]", "?",
];

/// byte-level edits; structure of the result is unknown
pub fn mutate(rng: &mut Rng, doc: &mut Vec<u8>, n: usize) -> String {
    let mut note = String::new();
    for _ in 0..n {
        let len = doc.len();
        match rng.below(7) {
            0 if len > 0 => {
                let i = rng.below(len);
                doc.remove(i);
                note.push_str(&format!("del@{} ", i));
            }
            1 => {
                let i = rng.below(len + 1);
                let b = if rng.chance(1, 4) { rng.below(256) as u8 } else { *rng.pick(ALPHABET) };
                doc.insert(i, b);
                note.push_str(&format!("ins@{}:{:02x} ", i, b));
            }
            2 if len > 1 => {
                let a = rng.below(len);
                let b = (a + rng.range(1, 8)).min(len);
                let seg: Vec<u8> = doc[a..b].to_vec();
                let at = rng.below(len + 1);
                for (k, x) in seg.iter().enumerate() {
                    doc.insert(at + k, *x);
                }
                note.push_str(&format!("dup{}..{}@{} ", a, b, at));
            }
            3 if len > 1 => {
                let i = rng.range(1, len - 1);
                doc.truncate(i);
                note.push_str(&format!("trunc@{} ", i));
            }
            4 if len > 0 => {
                let i = rng.below(len);
                let b = if rng.chance(1, 3) { rng.below(256) as u8 } else { *rng.pick(ALPHABET) };
                doc[i] = b;
                note.push_str(&format!("set@{}:{:02x} ", i, b));
            }
            5 if len > 1 => {
                let a = rng.below(len);
                let b = (a + rng.range(1, 6)).min(len);
                doc.drain(a..b);
                note.push_str(&format!("cut{}..{} ", a, b));
            }
            _ => {
                let i = rng.below(len + 1);
                let f = rng.pick(FRAGMENTS).as_bytes();
                for (k, x) in f.iter().enumerate() {
                    doc.insert(i + k, *x);
                }
                note.push_str(&format!("frag@{}:{} ", i, String::from_utf8_lossy(f)));
            }
        }
    }
    note
}

pub fn concat(toks: &[Tok]) -> Vec<u8> {
    toks.iter().flat_map(|t| t.raw.iter().copied()).collect()
}

/// (start, end) offsets of every token
pub fn spans(toks: &[Tok]) -> Vec<(usize, usize)> {
    let mut v = Vec::with_capacity(toks.len());
    let mut p = 0;
    for t in toks {
        v.push((p, p + t.raw.len()));
        p += t.raw.len();
    }
    v
}

/// does the document start with something the BOM / encoding sniff reacts to?
pub fn starts_with_signature(doc: &[u8]) -> bool {
    match doc.first() {
        Some(0xEF) | Some(0xFE) | Some(0xFF) | Some(0x00) => true,
        Some(0x3C) => doc.get(1) == Some(&0x00),
        _ => false,
    }
}

/// piece boundaries; sorted, unique, 0 < c < len
pub fn gen_cuts(rng: &mut Rng, doc: &[u8]) -> (Vec<u32>, &'static str) {
    let len = doc.len();
    let mut cuts: Vec<u32> = vec![];
    let mode;
    if len < 2 {
        return (cuts, "none");
    }
    match rng.below(12) {
        0 => mode = "none",
        1 => {
            mode = "size1";
            cuts = (1..len as u32).collect();
        }
        2 | 3 => {
            let k = *rng.pick(&[2usize, 3, 7, 64]);
            mode = "fixed";
            cuts = (1..len).filter(|i| i % k == 0).map(|i| i as u32).collect();
        }
        4 | 5 | 6 => {
            let den = *rng.pick(&[2usize, 4, 16]);
            mode = "random";
            cuts = (1..len).filter(|_| rng.chance(1, den)).map(|i| i as u32).collect();
        }
        _ => {
            mode = "targeted";
            // boundaries around terminators, openers and quotes
            let marks: Vec<usize> = (0..len)
                .filter(|&i| matches!(doc[i], b'>' | b'<' | b'\'' | b'"' | b'!' | b'?' | b'[' | b']' | b'-'))
                .collect();
            if !marks.is_empty() {
                let n = rng.range(1, 4.min(marks.len()));
                for _ in 0..n {
                    let m = *rng.pick(&marks) as i64;
                    let d = rng.range(0, 4) as i64 - 3; // -3..=+1
                    let c = m + d;
                    if c > 0 && (c as usize) < len {
                        cuts.push(c as u32);
                    }
                    if rng.chance(1, 3) {
                        let c2 = c + 1;
                        if c2 > 0 && (c2 as usize) < len {
                            cuts.push(c2 as u32);
                        }
                    }
                }
            }
            if rng.chance(1, 3) {
                for i in 1..len {
                    if rng.chance(1, 16) {
                        cuts.push(i as u32);
                    }
                }
            }
            cuts.sort_unstable();
            cuts.dedup();
        }
    }
    (cuts, mode)
}

/// Apply the stated exception of C02: the sniff may look at the first piece only
pub fn respect_sniff(doc: &[u8], st: &mut Stream) {
    if starts_with_signature(doc) {
        // a complete byte order mark is recognised from exactly its own bytes (a writer that
        // sends the BOM as a separate piece is ordinary); every other signature needs 4
        let need = if doc.starts_with(&[0xEF, 0xBB, 0xBF]) {
            3
        } else if doc.starts_with(&[0xFE, 0xFF]) || doc.starts_with(&[0xFF, 0xFE]) {
            2
        } else {
            4.min(doc.len())
        } as u32;
        st.cuts.retain(|&c| c >= need);
        if st.cap < need {
            st.cap = need;
        }
        st.grow = false;
    }
}

pub const CAPS: &[u32] = &[1, 2, 3, 7, 16, 64, 8192];

pub fn gen_stream(rng: &mut Rng, doc: &[u8], allow_async: bool) -> (Stream, &'static str) {
    let kind = match rng.below(if allow_async { 8 } else { 4 }) {
        0 | 1 => SourceKind::SimBufRead,
        2 | 3 => SourceKind::StdBufReader,
        4 | 5 => SourceKind::SimAsyncBufRead,
        _ => SourceKind::TokioBufReader,
    };
    let (cuts, mode) = gen_cuts(rng, doc);
    let mut st = Stream {
        kind,
        cap: *rng.pick(CAPS),
        cuts,
        keep_buf: rng.chance(1, 4),
        grow: rng.chance(1, 5),
        faults: vec![],
        eof_at: None,
        revive: false,
    };
    if kind.is_async() && rng.chance(2, 3) {
        // pending patterns: before a few refill calls
        let approx_calls = (st.cuts.len() * 2 + 8) as u32;
        for _ in 0..rng.range(1, 4) {
            st.faults.push(FaultAt {
                call: rng.below(approx_calls as usize) as u32,
                fault: Fault::Pending { n: rng.range(1, 3) as u8, defer: if rng.bool() { 0 } else { rng.range(1, 5) as u8 } },
            });
        }
        st.faults.sort_by_key(|f| f.call);
    }
    respect_sniff(doc, &mut st);
    (st, mode)
}

/// classify piece boundaries by what they split (the "rare neighbourhood" probes)
pub fn classify_cuts(doc: &[u8], cuts: &[u32], hits: &mut std::collections::BTreeMap<&'static str, u64>) {
    let at = |i: i64| -> u8 {
        if i < 0 || i as usize >= doc.len() {
            0
        } else {
            doc[i as usize]
        }
    };
    for &c in cuts {
        let c = c as i64;
        let (p2, p1, n0, n1) = (at(c - 2), at(c - 1), at(c), at(c + 1));
        let mut k: Option<&'static str> = None;
        if p1 == b'-' && n0 == b'-' && n1 == b'>' {
            k = Some("split -|->");
        } else if p2 == b'-' && p1 == b'-' && n0 == b'>' {
            k = Some("split --|>");
        } else if p1 == b']' && n0 == b']' && n1 == b'>' {
            k = Some("split ]|]>");
        } else if p2 == b']' && p1 == b']' && n0 == b'>' {
            k = Some("split ]]|>");
        } else if p1 == b'?' && n0 == b'>' {
            k = Some("split ?|>");
        } else if p1 == b'/' && n0 == b'>' {
            k = Some("split /|>");
        } else if p1 == b'<' && n0 == b'!' {
            k = Some("split <|!");
        } else if p2 == b'<' && p1 == b'!' {
            k = Some("split <!|x");
        } else if p1 == b'<' && n0 == b'/' {
            k = Some("split <|/");
        } else if p1 == b'<' && n0 == b'?' {
            k = Some("split <|?");
        } else if p1 == b'<' {
            k = Some("split <|x");
        } else if n0 == b'<' {
            k = Some("split x|<");
        } else if n0 == b'>' {
            k = Some("split x|>");
        } else if p1 == b'\'' || p1 == b'"' || n0 == b'\'' || n0 == b'"' {
            k = Some("split at quote");
        } else if p1 == b'>' {
            k = Some("split >|x");
        }
        if let Some(k) = k {
            *hits.entry(k).or_insert(0) += 1;
        }
    }
}

/// is at least one boundary strictly inside a markup construct?
/// (lexical approximation: between a '<' and the next '>' on a quote-blind scan)
pub fn cut_inside_markup(doc: &[u8], cuts: &[u32]) -> bool {
    if cuts.is_empty() {
        return false;
    }
    let mut inside = vec![false; doc.len() + 1];
    let mut open = false;
    for (i, &b) in doc.iter().enumerate() {
        // boundary i lies between doc[i-1] and doc[i]
        inside[i] = open;
        if b == b'<' {
            open = true;
        } else if b == b'>' {
            open = false;
        }
    }
    cuts.iter().any(|&c| inside[c as usize])
}

/// "Stretch" a token document so that size thresholds are crossed now and then:
/// a long element name, a long text run, a long attribute value, many attributes on
/// one tag, or deep nesting. Structure (and the name/attrs fields the models use)
/// stays exact. Applied to a small share of plans only.
pub fn stretch_tokens(rng: &mut Rng, toks: &mut Vec<Tok>, allow_wrap: bool) -> String {
    let original = toks.clone();
    let note = stretch_tokens_inner(rng, toks, allow_wrap);
    // transforms compound (700 siblings x a 2 KB name): keep single runs affordable
    let size: usize = toks.iter().map(|t| t.raw.len()).sum();
    if size > 150_000 {
        *toks = original;
        return format!("(dropped, {} bytes would be too large: {})", size, note);
    }
    note
}

fn stretch_tokens_inner(rng: &mut Rng, toks: &mut Vec<Tok>, allow_wrap: bool) -> String {
    let mut note = String::new();
    let lens = [17usize, 33, 65, 129, 257, 1100];
    for _ in 0..rng.range(1, 2) {
        match rng.below(7) {
            5 => {
                // a long comment / CDATA / PI payload
                let idx: Vec<usize> = (0..toks.len()).filter(|&i| matches!(toks[i].k, TK::Comment | TK::CData | TK::PI)).collect();
                if idx.is_empty() {
                    continue;
                }
                let i = *rng.pick(&idx);
                let n = *rng.pick(&[70usize, 300, 8200]);
                let (open, unit) = match toks[i].k {
                    // units cannot combine with the original payload into a terminator
                    TK::Comment => (4, "c> <a> "),
                    TK::CData => (9, "d> </a> "),
                    _ => (2, "p > x "),
                };
                if toks[i].raw.len() >= open {
                    let mut filler: String = unit.chars().cycle().take(n).collect();
                    filler.push(' ');
                    // PI: keep the target, add the filler as content
                    let at = if toks[i].k == TK::PI { toks[i].raw.len() - 2 } else { open };
                    let mut r = toks[i].raw[..at].to_vec();
                    if toks[i].k == TK::PI {
                        r.push(b' ');
                    }
                    r.extend_from_slice(filler.as_bytes());
                    r.extend_from_slice(&toks[i].raw[at..]);
                    toks[i].raw = r;
                    note.push_str(&format!("long-{:?}({}) ", toks[i].k, n));
                }
            }
            6 => {
                // many siblings (with declarations when the document uses namespaces)
                let ends: Vec<usize> = (0..toks.len()).filter(|&i| toks[i].k == TK::End).collect();
                if ends.is_empty() {
                    continue;
                }
                let at = *rng.pick(&ends);
                let ns = toks.iter().any(|t| t.attrs.iter().any(|(k, _)| k.starts_with("xmlns")));
                let n = *rng.pick(&[130usize, 260, 700]);
                let mut sib: Vec<Tok> = Vec::with_capacity(n);
                for k in 0..n {
                    let (raw, attrs) = if ns && k % 3 == 0 {
                        ("<p:c xmlns:p=\"u1\"/>".to_string(), vec![("xmlns:p".to_string(), "u1".to_string())])
                    } else if k % 2 == 0 {
                        ("<s k=\"v\"/>".to_string(), vec![("k".to_string(), "v".to_string())])
                    } else {
                        ("<s/>".to_string(), vec![])
                    };
                    let name = if raw.starts_with("<p:c") { "p:c" } else { "s" };
                    sib.push(Tok { k: TK::Empty, raw: raw.into_bytes(), name: name.to_string(), attrs });
                }
                let tail: Vec<Tok> = toks.split_off(at);
                toks.extend(sib);
                toks.extend(tail);
                note.push_str(&format!("many-siblings({}) ", n));
            }
            0 => {
                // rename one element name consistently
                let names: Vec<String> = toks.iter().filter(|t| matches!(t.k, TK::Start | TK::Empty)).map(|t| t.name.clone()).collect();
                if names.is_empty() {
                    continue;
                }
                let old = rng.pick(&names).clone();
                let unit = *rng.pick(&["n", "n", "\u{e9}", "n\u{e9}", "\u{65e5}"]);
                let extra: String = unit.chars().cycle().take(*rng.pick(&lens)).collect();
                let new = format!("{}{}", old, extra);
                for t in toks.iter_mut() {
                    if t.name == old && matches!(t.k, TK::Start | TK::Empty | TK::End) {
                        let off = if t.k == TK::End { 2 } else { 1 };
                        // raw starts with '<' or '</' followed by exactly the name
                        if t.raw.len() >= off + old.len() && &t.raw[off..off + old.len()] == old.as_bytes() {
                            let mut r = t.raw[..off + old.len()].to_vec();
                            r.extend_from_slice(extra.as_bytes());
                            r.extend_from_slice(&t.raw[off + old.len()..]);
                            t.raw = r;
                            t.name = new.clone();
                        }
                    }
                }
                note.push_str(&format!("long-name({}) ", new.len()));
            }
            1 => {
                let idx: Vec<usize> = (0..toks.len()).filter(|&i| toks[i].k == TK::Text).collect();
                if idx.is_empty() {
                    continue;
                }
                let i = *rng.pick(&idx);
                let n = *rng.pick(&[200usize, 1000, 8200, 20000]);
                let filler: String = "lorem ipsum ".chars().cycle().take(n).collect();
                let at = toks[i].raw.len() / 2;
                let at = (0..=at).rev().find(|&a| std::str::from_utf8(&toks[i].raw[..a]).is_ok()).unwrap_or(0);
                let mut r = toks[i].raw[..at].to_vec();
                r.extend_from_slice(filler.as_bytes());
                r.extend_from_slice(&toks[i].raw[at..]);
                toks[i].raw = r;
                note.push_str(&format!("long-text({}) ", n));
            }
            2 => {
                // many attributes on one start tag
                let idx: Vec<usize> = (0..toks.len()).filter(|&i| matches!(toks[i].k, TK::Start | TK::Empty)).collect();
                if idx.is_empty() {
                    continue;
                }
                let i = *rng.pick(&idx);
                let n = *rng.pick(&[9usize, 33, 70]);
                let close = if toks[i].k == TK::Empty { 2 } else { 1 };
                let mut body = toks[i].raw[..toks[i].raw.len() - close].to_vec();
                while body.last().map(|b| matches!(b, b' ' | b'\t' | b'\r' | b'\n')).unwrap_or(false) {
                    body.pop();
                }
                for k in 0..n {
                    let key = format!("z{}", k);
                    let val = if k % 7 == 0 { "v>".to_string() } else { format!("{}", k) };
                    body.extend_from_slice(format!(" {}=\"{}\"", key, val).as_bytes());
                    toks[i].attrs.push((key, val));
                }
                body.extend_from_slice(if close == 2 { b"/>" } else { b">" });
                toks[i].raw = body;
                note.push_str(&format!("many-attrs({}) ", n));
            }
            3 => {
                // one long attribute value
                let idx: Vec<usize> = (0..toks.len()).filter(|&i| matches!(toks[i].k, TK::Start | TK::Empty)).collect();
                if idx.is_empty() {
                    continue;
                }
                let i = *rng.pick(&idx);
                let n = *rng.pick(&[130usize, 600, 9000]);
                let close = if toks[i].k == TK::Empty { 2 } else { 1 };
                let mut body = toks[i].raw[..toks[i].raw.len() - close].to_vec();
                while body.last().map(|b| matches!(b, b' ' | b'\t' | b'\r' | b'\n')).unwrap_or(false) {
                    body.pop();
                }
                let val: String = match rng.below(4) {
                    0 => "a>b ".chars().cycle().take(n).collect(),
                    1 => format!("{}>{}", "x".repeat(n / 2), "y".repeat(n / 2)),
                    2 => format!("{}/>{}", "\u{e9}".repeat(n / 3), "z".repeat(n / 3)),
                    _ => "v".repeat(n),
                };
                body.extend_from_slice(format!(" zz='{}'", val).as_bytes());
                toks[i].attrs.push(("zz".to_string(), val));
                body.extend_from_slice(if close == 2 { b"/>" } else { b">" });
                toks[i].raw = body;
                note.push_str(&format!("long-attr({}) ", n));
            }
            _ if allow_wrap => {
                // deep nesting around the first element
                if let Some(first) = toks.iter().position(|t| matches!(t.k, TK::Start | TK::Empty)) {
                    let long_wrapper = rng.chance(1, 4);
                    let d = if long_wrapper { *rng.pick(&[20usize, 70]) } else { *rng.pick(&[8usize, 20, 70, 300]) };
                    let long_name: String = format!("w{}", "n".repeat(1000));
                    let name: &str = if long_wrapper { &long_name } else { "w" };
                    let mut pre: Vec<Tok> = vec![];
                    let mut post: Vec<Tok> = vec![];
                    for _ in 0..d {
                        pre.push(Tok { k: TK::Start, raw: format!("<{}>", name).into_bytes(), name: name.to_string(), attrs: vec![] });
                        post.push(Tok { k: TK::End, raw: format!("</{}>", name).into_bytes(), name: name.to_string(), attrs: vec![] });
                    }
                    let tail: Vec<Tok> = toks.split_off(first);
                    toks.extend(pre);
                    toks.extend(tail);
                    // close the wrappers after the last End token
                    let last_end = toks.iter().rposition(|t| matches!(t.k, TK::End | TK::Empty)).unwrap_or(toks.len() - 1);
                    let after: Vec<Tok> = toks.split_off(last_end + 1);
                    toks.extend(post);
                    toks.extend(after);
                    note.push_str(&format!("deep({}) ", d));
                }
            }
            _ => {}
        }
    }
    note
}
