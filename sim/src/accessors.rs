//! Every payload accessor of a returned event is called (C03: "also every payload
//! accessor on every returned event"). Results are ignored; only panics and
//! non-termination matter (iteration is bounded by the event length).

use quick_xml::events::attributes::Attributes;
use quick_xml::encoding::Decoder;
use quick_xml::events::{BytesStart, Event};

fn drain(mut it: Attributes<'_>, bound: usize, dec: Decoder) -> bool {
    let mut n = 0usize;
    for a in &mut it {
        n += 1;
        if let Ok(a) = a {
            let _ = a.key.local_name();
            let _ = a.key.prefix();
            let _ = a.key.as_namespace_binding();
            let _ = a.decode_and_unescape_value(dec);
            let _ = a.as_bool();
        }
        if n > bound {
            return false;
        }
    }
    // iteration "always ends and stays ended"
    it.next().is_none()
}

fn start(e: &BytesStart<'_>, dec: Decoder) {
    let bound = e.len() + 4;
    let _ = e.name().decompose();
    let _ = e.local_name();
    let _ = e.attributes_raw();
    let mut ok = true;
    ok &= drain(e.attributes(), bound, dec);
    ok &= drain(e.html_attributes(), bound, dec);
    let mut a = e.attributes();
    a.with_checks(false);
    ok &= drain(a, bound, dec);
    let mut a = e.html_attributes();
    a.with_checks(false);
    ok &= drain(a, bound, dec);
    let _ = e.try_get_attribute("k");
    let _ = e.try_get_attribute("xmlns");
    let _ = e.to_end().name();
    if !ok {
        panic_unbounded();
    }
}

#[inline(never)]
fn panic_unbounded() {
    // reported as a library-side failure of "iteration always ends": raise through
    // the budget payload so it is classified as non-termination
    std::panic::panic_any(crate::source::BudgetExceeded("attribute iteration did not end"));
}

pub fn exercise(e: &Event<'_>, dec: Decoder) {
    // conversions and renderings every consumer uses
    let b = e.borrow();
    let o = e.clone().into_owned();
    let _ = b == o;
    let _ = format!("{:?}", e);
    let _: &[u8] = e;
    match e {
        Event::Start(s) | Event::Empty(s) => start(s, dec),
        Event::End(x) => {
            let _ = x.name().decompose();
            let _ = x.local_name();
        }
        Event::Text(t) => {
            let _ = t.unescape();
            let mut c = t.clone();
            let _ = c.inplace_trim_start();
            let _ = c.inplace_trim_end();
        }
        Event::Comment(t) | Event::DocType(t) => {
            let _ = t.unescape();
        }
        Event::CData(c) => {
            let _ = c.clone().escape();
            let _ = c.clone().partial_escape();
            let _ = c.clone().minimal_escape();
        }
        Event::PI(p) => {
            let _ = p.target();
            let _ = p.content();
            let _ = drain(p.attributes(), p.len() + 4, dec);
        }
        Event::Decl(d) => {
            let _ = d.version();
            let _ = d.encoding();
            let _ = d.standalone();
            #[cfg(feature = "enc")]
            let _ = d.encoder();
        }
        Event::Eof => {}
    }
}

/// errors are printed by every consumer: Display, Debug and source() must work too
pub fn exercise_err(e: &quick_xml::Error) {
    use std::error::Error as _;
    let _ = e.to_string();
    let _ = format!("{:?}", e);
    let mut src = e.source();
    let mut n = 0;
    while let Some(s) = src {
        let _ = s.to_string();
        src = s.source();
        n += 1;
        if n > 8 {
            break;
        }
    }
}
