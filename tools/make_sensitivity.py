#!/usr/bin/env python3
"""Regenerates /verif/sensitivity/*.diff: deliberate, compiling breaks of quick-xml, one
per file, each aimed at one claimed property. Run with /repo clean; leaves /repo clean.
Each entry: (name, property, file, old, new). `old` must occur exactly once."""
import subprocess, sys, os

R = "/repo"
OUT = "/verif/sensitivity"
M = []
def m(name, prop, file, old, new, count=1):
    M.append((name, prop, file, old, new, count))

BR = "src/reader/buffered_reader.rs"
MOD = "src/reader/mod.rs"
ST = "src/reader/state.rs"

# ---------------- C02
m("c02_drop_split_dash", "C02", MOD, """                        if i == 1 && buf.ends_with(b"-") && chunk[0] == b'-' {
                            return Some((&chunk[..i], i + 1)); // +1 for `>`
                        }
""", "")
m("c02_drop_split_dashdash", "C02", MOD, """                        if i == 0 && buf.ends_with(b"--") {
                            return Some((&[], i + 1)); // +1 for `>`
                        }
""", "")
m("c02_drop_split_brk1", "C02", MOD, """                    if i == 1 && buf.ends_with(b"]") && chunk[0] == b']' {
                        return Some((&chunk[..i], i + 1)); // +1 for `>`
                    }
""", "")
m("c02_drop_split_brk2", "C02", MOD, """                    if i == 0 && buf.ends_with(b"]]") {
                        return Some((&[], i + 1)); // +1 for `>`
                    }
""", "")
m("c02_pi_forget_qmark", "C02", "src/parser/pi.rs", "self.0 = bytes.last().copied() == Some(b'?');", "self.0 = false;")
m("c02_elem_reset_quote", "C02", "src/parser/element.rs", """    fn feed(&mut self, bytes: &[u8]) -> Option<usize> {
        for i in memchr::memchr3_iter""", """    fn feed(&mut self, bytes: &[u8]) -> Option<usize> {
        *self = Self::Outside;
        for i in memchr::memchr3_iter""")
m("c02_doctype_balance_reset", "C02", MOD, """            Self::DocType(ref mut balance) => {
                for i in""", """            Self::DocType(ref mut balance) => {
                *balance = 0;
                for i in""")
m("c02_read_text_guard", "C02", BR, "Some(0) if read == 0 => {", "Some(0) => {")
m("c02_read_with_whole_buf", "C02", BR, """                    *position += read;
                    return Ok(&buf[start..]);""", """                    *position += read;
                    return Ok(&buf[..]);""")
m("c02_bang_position_once", "C02", BR, """                            self $(.$reader)? .consume(used);
                            read += used as u64;

                            *position += read;
                            return Ok((bang_type, &buf[start..]));""", """                            self $(.$reader)? .consume(used);

                            *position += read + used as u64 - (buf.len() - start > 64) as u64;
                            return Ok((bang_type, &buf[start..]));""")
m("c02_skip_ws_position", "C02", BR, """                            self $(.$reader)? .consume(count);
                            *position += count as u64;
                            continue;""", """                            self $(.$reader)? .consume(count);
                            *position += (count as u64).min(3);
                            continue;""")
# ---------------- C03
m("c03_qmark_len", "C03", ST, "if len > 1 && buf[len - 1] == b'?' {", "if buf[len - 1] == b'?' {")
m("c03_comment_len", "C03", MOD, "if buf.len() + i > 4 {", "if buf.len() + i > 3 {")
m("c03_done_transition", "C03", MOD, "Err(_) | Ok(Event::Eof) => $self.state.state = ParseState::Done,", "Ok(Event::Eof) => $self.state.state = ParseState::Done,")
m("c03_skip_ws_loop", "C03", BR, """                        if count > 0 {
                            self $(.$reader)? .consume(count);""", """                        if count > 0 || !n.is_empty() {
                            self $(.$reader)? .consume(count);""")
m("c03_errpos_beyond", "C03", ST, "self.last_error_offset = self.offset - 1;", "self.last_error_offset = self.offset + 1;")
m("c03_doctype_short", "C03", ST, "match buf[8..].iter().position(|&b| !is_whitespace(b)) {", "match buf[9..].iter().position(|&b| !is_whitespace(b)).map(|p| p + 1) {")
# ---------------- C04
m("c04_push_only_if_check", "C04", ST, """            // enabled, we should have that information
            self.opened_starts.push(self.opened_buffer.len());
            self.opened_buffer.extend(event.name().as_ref());""", """            // enabled, we should have that information
            if self.config.check_end_names {
                self.opened_starts.push(self.opened_buffer.len());
                self.opened_buffer.extend(event.name().as_ref());
            }""")
m("c04_no_truncate_mismatch", "C04", ST, """                        // #513: In order to allow error recovery we should drop content of the buffer
                        self.opened_buffer.truncate(start);
""", "")
m("c04_no_truncate_ok", "C04", ST, """                }

                self.opened_buffer.truncate(start);
            }
            None => {""", """                }
            }
            None => {""")
m("c04_starts_with", "C04", ST, "if name != expected {", "if !expected.starts_with(name) {")
m("c04_illformed_terminal", "C04", MOD, """            Err(Error::IllFormed(_)) => {}
""", "")
m("c04_trim_always", "C04", ST, "let name = if self.config.trim_markup_names_in_closing_tags {", "let name = if true {")
m("c04_unmatched_ignores_allow", "C04", ST, "if !self.config.allow_unmatched_ends {", "if !self.config.allow_unmatched_ends && self.config.check_end_names {")
m("c04_expanded_no_push", "C04", ST, """                self.state = ParseState::InsideEmpty;
                self.opened_starts.push(self.opened_buffer.len());
                self.opened_buffer.extend(event.name().as_ref());""", """                self.state = ParseState::InsideEmpty;
                self.opened_starts.push(self.opened_buffer.len().saturating_sub(self.opened_starts.len() / 3));
                self.opened_buffer.extend(event.name().as_ref());""")
# ---------------- C05
NS = "src/reader/ns_reader.rs"
NAME = "src/name.rs"
AT = "src/reader/async_tokio.rs"
m("c05_no_pending_pop_empty", "C05", NS, """                // notify next `read_event_impl()` invocation that it needs to pop this
                // namespace scope
                self.pending_pop = true;
                Ok(Event::Empty(e))""", """                Ok(Event::Empty(e))""")
m("c05_pop_lt", "C05", NAME, "rposition(|n| n.level <= current_level)", "rposition(|n| n.level < current_level)")
m("c05_attr_default_ns", "C05", NAME, "(None, None) => Some(ResolveResult::Unbound),", "(None, None) => Some(n.namespace(&self.buffer)),")
m("c05_ignore_undecl", "C05", NAME, """                _ if n.value_len == 0 => Some(Self::maybe_unknown(prefix)),
""", "")
m("c05_async_forget_pop", "C05", AT, """    pub async fn read_event_into_async<'b>(&mut self, buf: &'b mut Vec<u8>) -> Result<Event<'b>> {
        self.pop();
""", """    pub async fn read_event_into_async<'b>(&mut self, buf: &'b mut Vec<u8>) -> Result<Event<'b>> {
""")
m("c05_async_skip_no_pop", "C05", AT, """        let result = self.reader.read_to_end_into_async(end, buf).await?;
        // The closing tag was consumed by the plain reader, so the scope opened
        // by the corresponding `Start` event is finished
        self.ns_resolver.pop();
        Ok(result)""", """        let result = self.reader.read_to_end_into_async(end, buf).await?;
        Ok(result)""")
m("c05_read_text_no_pop", "C05", NS, """        let result = self.reader.read_text(end)?;
        // The closing tag was consumed by the plain reader, so the scope opened
        // by the corresponding `Start` event is finished
        self.ns_resolver.pop();
        Ok(result)""", """        let result = self.reader.read_text(end)?;
        Ok(result)""")
m("c05_prefix_iter_no_override", "C05", NAME, """                continue; // Overridden
""", """                // Overridden
""")
m("c05_pop_keeps_buffer", "C05", NAME, """                if let Some(len) = self.bindings.get(last_valid_pos + 1).map(|n| n.start) {
                    self.buffer.truncate(len);
                    self.bindings.truncate(last_valid_pos + 1);
                }""", """                if let Some(len) = self.bindings.get(last_valid_pos + 2).map(|n| n.start) {
                    self.buffer.truncate(len);
                    self.bindings.truncate(last_valid_pos + 2);
                }""")
m("c05_xmlns_rebind_allowed", "C05", NAME, """                    Some(PrefixDeclaration::Named(b"xmlns")) => {
                        // error, `xmlns` prefix explicitly set
                        return Err(NamespaceError::InvalidXmlnsPrefixBind(v.to_vec()));
                    }
""", "")
m("c05_xml_uri_for_other_prefix_allowed", "C05", NAME, """                        if ns == RESERVED_NAMESPACE_XML.1 {
                            // error, non-`xml` prefix set to xml uri
                            return Err(NamespaceError::InvalidPrefixForXml(prefix.to_vec()));
                        } else if ns == RESERVED_NAMESPACE_XMLNS.1 {""", """                        if ns == RESERVED_NAMESPACE_XMLNS.1 {""")
# ---------------- C07
DE = "src/de/mod.rs"
m("c07_revert_doctype_fix", "C07", DE, """            while let Ok(PayloadEvent::DocType(_)) = self.lookahead {""", """            while let (true, Ok(PayloadEvent::DocType(_))) = (false, &self.lookahead) {""")
m("c07_drain_no_cdata_merge", "C07", DE, """            Ok(PayloadEvent::Text(_)) | Ok(PayloadEvent::CData(_))
        )
    }""", """            Ok(PayloadEvent::Text(_))
        )
    }""")
# ---------------- C09
W = "src/writer/async_tokio.rs"
EV = "src/events/mod.rs"
m("c09_async_empty", "C09", W, """Event::Empty(e) => self.write_wrapped_async(b"<", &e, b"/>").await,""", """Event::Empty(e) => self.write_wrapped_async(b"<", &e, b" />").await,""")
m("c09_async_doctype", "C09", W, """self.write_wrapped_async(b"<!DOCTYPE ", &e, b">").await""", """self.write_wrapped_async(b"<!DOCTYPE", &e, b">").await""")
m("c09_async_cdata_flag", "C09", W, """            Event::CData(e) => {
                next_should_line_break = false;
                self.write_async(b"<![CDATA[").await?;""", """            Event::CData(e) => {
                self.write_async(b"<![CDATA[").await?;""")
m("c09_async_indent_after_end", "C09", W, """            Event::End(e) => {
                if let Some(i) = self.indent.as_mut() {
                    i.shrink();
                }
                self.write_wrapped_async(b"</", &e, b">").await""", """            Event::End(e) => {
                let r = self.write_wrapped_async(b"</", &e, b">").await;
                if let Some(i) = self.indent.as_mut() {
                    i.shrink();
                }
                r""")
m("c09_set_name_len", "C09", EV, """        bytes.splice(..self.name_len, name.iter().cloned());
        self.name_len = name.len();""", """        bytes.splice(..self.name_len, name.iter().cloned());
        self.name_len = self.name_len.max(name.len());""")
m("c09_clear_wrong", "C09", EV, "self.buf.to_mut().truncate(self.name_len);", "let keep = self.name_len + (self.buf.len() > self.name_len + 12) as usize * 4;\n        self.buf.to_mut().truncate(keep);")
m("c09_decl_standalone_quote", "C09", EV, """            buf.push_str("\\" standalone=\\"");""", """            buf.push_str("\\" standalone=\\'");""")
m("c09_attr_quot_unescaped", "C09", "src/escape.rs", """                b'"' => escaped.extend_from_slice(b"&quot;"),""", """                b'"' if bytes.len() < 6 => escaped.extend_from_slice(b"&quot;"),""", 0)
# ---------------- C12
m("c12_depth_order", "C12", MOD, """                    if depth == 0 {
                        $self.config_mut().trim_text_start = trim;
                        break start..end;
                    }
                    depth -= 1;""", """                    depth -= 1;
                    if depth <= 0 {
                        $self.config_mut().trim_text_start = trim;
                        break start..end;
                    }""")
m("c12_forget_restore_eof", "C12", MOD, """                Ok(Event::Eof) => {
                    $self.config_mut().trim_text_start = trim;
                    return Err(Error::missed_end""", """                Ok(Event::Eof) => {
                    return Err(Error::missed_end""")
m("c12_forget_restore_err", "C12", MOD, """                Err(e) => {
                    $self.config_mut().trim_text_start = trim;
                    return Err(e);""", """                Err(e) => {
                    return Err(e);""")
m("c12_start_before_trim_off", "C12", MOD, """        let config = $self.config_mut();
        let trim = config.trim_text_start;
        config.trim_text_start = false;

        let start = $self.buffer_position();""", """        let start = $self.buffer_position();
        let config = $self.config_mut();
        let trim = config.trim_text_start;
        config.trim_text_start = trim && config.expand_empty_elements;
""")
m("c12_read_text_len", "C12", "src/reader/slice_reader.rs", "let len = span.end - span.start;", "let len = span.end - span.start - (span.start > 64) as u64;")
# ---------------- C14
m("c14_ioreader_skip_swallows_illformed", "C14", DE, """        match self.reader.read_to_end_into(name, &mut self.buf) {
            Err(e) => Err(e.into()),""", """        match self.reader.read_to_end_into(name, &mut self.buf) {
            Err(crate::errors::Error::IllFormed(_)) => Ok(()),
            Err(e) => Err(e.into()),""")
m("c14_ioreader_trimmer_reset", "C14", DE, """    fn read_to_end(&mut self, name: QName) -> Result<(), DeError> {
        match self.reader.read_to_end_into(name, &mut self.buf) {""", """    fn read_to_end(&mut self, name: QName) -> Result<(), DeError> {
        self.start_trimmer = StartTrimmer::default();
        match self.reader.read_to_end_into(name, &mut self.buf) {""")
m("c14_buffered_cdata_split", "C14", MOD, """                    if i == 1 && buf.ends_with(b"]") && chunk[0] == b']' {
                        return Some((&chunk[..i], i + 1)); // +1 for `>`
                    }
""", "")
# ---------------- C18
for helper, marker in [
    ("read_text", """                    Ok(n) => n,
                    Err(ref e) if e.kind() == io::ErrorKind::Interrupted => continue,
                    Err(e) => {
                        *position += read;
                        return ReadTextResult::Err(e);"""),
    ("read_with", """                    Ok(n) => n,
                    Err(ref e) if e.kind() == io::ErrorKind::Interrupted => continue,
                    Err(e) => {
                        *position += read;
                        return Err(Error::Io(e.into()));"""),
]:
    m(f"c18_{helper}_no_eintr", "C18", BR, marker, marker.replace("                    Err(ref e) if e.kind() == io::ErrorKind::Interrupted => continue,\n", ""))
m("c18_bang_no_eintr", "C18", BR, """                    Err(ref e) if e.kind() == io::ErrorKind::Interrupted => continue,
                    Err(e) => {
                        *position += read;
                        return Err(Error::Io(e.into()));
                    }
                }
            }

            *position += read;
            Err(bang_type.to_err().into())""", """                    Err(e) => {
                        *position += read;
                        return Err(Error::Io(e.into()));
                    }
                }
            }

            *position += read;
            Err(bang_type.to_err().into())""")
m("c18_skip_ws_no_eintr", "C18", BR, """                    }
                    Err(ref e) if e.kind() == io::ErrorKind::Interrupted => continue,
                    Err(e) => Err(e),
                };
            }
        }

        #[inline]
        $($async)? fn peek_one""", """                    }
                    Err(e) => Err(e),
                };
            }
        }

        #[inline]
        $($async)? fn peek_one""")
m("c18_peek_no_eintr", "C18", BR, """                    Ok(n) => Ok(n.first().cloned()),
                    Err(ref e) if e.kind() == io::ErrorKind::Interrupted => continue,""", """                    Ok(n) => Ok(n.first().cloned()),""")
m("c18_bom_no_eintr", "C18", BR, """                        Ok(())
                    },
                    Err(ref e) if e.kind() == io::ErrorKind::Interrupted => continue,""", """                        Ok(())
                    },""")
m("c18_detect_enc_no_eintr", "C18", BR, """                        Ok(None)
                    },
                    Err(ref e) if e.kind() == io::ErrorKind::Interrupted => continue,""", """                        Ok(None)
                    },""")
m("c18_text_err_to_eof", "C18", BR, """                    Err(e) => {
                        *position += read;
                        return ReadTextResult::Err(e);
                    }""", """                    Err(_) => break,""")
m("c18_with_err_to_syntax", "C18", BR, """                    Err(e) => {
                        *position += read;
                        return Err(Error::Io(e.into()));
                    }
                };

                if let Some(i) = parser.feed(available) {""", """                    Err(_) => break,
                };

                if let Some(i) = parser.feed(available) {""")
m("c18_peek_swallow", "C18", BR, """                    Err(ref e) if e.kind() == io::ErrorKind::Interrupted => continue,
                    Err(e) => Err(e),
                };
            }
        }
    };""", """                    Err(ref e) if e.kind() == io::ErrorKind::Interrupted => continue,
                    Err(_) => Ok(None),
                };
            }
        }
    };""")
m("c18_skip_io_to_missing_end", "C18", MOD, """                Err(e) => {
                    $self.config_mut().trim_text_start = trim;
                    return Err(e);
                }

                Ok(Event::Start(e)) if e.name() == $end => depth += 1,""", """                Err(Error::Io(_)) => {
                    $self.config_mut().trim_text_start = trim;
                    return Err(Error::missed_end($end, $self.decoder()));
                }
                Err(e) => {
                    $self.config_mut().trim_text_start = trim;
                    return Err(e);
                }

                Ok(Event::Start(e)) if e.name() == $end => depth += 1,""")
m("c18_text_partial_event", "C18", BR, """                    Err(e) => {
                        *position += read;
                        return ReadTextResult::Err(e);
                    }""", """                    Err(e) => {
                        *position += read;
                        if read > 0 {
                            return ReadTextResult::UpToEof(&buf[start..]);
                        }
                        return ReadTextResult::Err(e);
                    }""")
m("c18_eintr_refeeds", "C18", BR, """                    Ok(n) => n,
                    Err(ref e) if e.kind() == io::ErrorKind::Interrupted => continue,
                    Err(e) => {
                        *position += read;
                        return Err(Error::Io(e.into()));""", """                    Ok(n) => n,
                    Err(ref e) if e.kind() == io::ErrorKind::Interrupted => {
                        buf.truncate(start + (buf.len() - start) / 2 * 2);
                        continue;
                    }
                    Err(e) => {
                        *position += read;
                        return Err(Error::Io(e.into()));""")

# ---------------- behaviour-preserving edits: every check must stay SILENT on these
m("neutral_elementparser_loop", "C02", "src/parser/element.rs", """        for i in memchr::memchr3_iter(b'>', b'\\'', b'"', bytes) {""", """        for i in (0..bytes.len()).filter(|&i| matches!(bytes[i], b'>' | b'\\'' | b'"')) {""")
m("neutral_piparser_loop", "C18", "src/parser/pi.rs", """        for i in memchr::memchr_iter(b'>', bytes) {""", """        for i in (0..bytes.len()).filter(|&i| bytes[i] == b'>') {""")
m("neutral_emit_end_reorder", "C04", ST, """        match self.opened_starts.pop() {
            Some(start) => {
                if self.config.check_end_names {""", """        let popped = self.opened_starts.pop();
        match popped {
            Some(start) => {
                if self.config.check_end_names {""")
m("neutral_ns_pop_explicit", "C05", NS, """    pub(super) fn pop(&mut self) {
        if self.pending_pop {
            self.ns_resolver.pop();
            self.pending_pop = false;
        }
    }""", """    pub(super) fn pop(&mut self) {
        let pending = std::mem::replace(&mut self.pending_pop, false);
        if pending {
            self.ns_resolver.pop();
        }
    }""")
m("neutral_read_to_end_depth_u32", "C12", MOD, """        let mut depth = 0;
        loop {
            $clear""", """        let mut depth: u64 = 0;
        loop {
            $clear""")

def sh(*a, **k):
    return subprocess.run(a, cwd=R, capture_output=True, text=True, **k)

if sh("git", "diff", "--quiet").returncode != 0:
    sys.exit("refusing: /repo has uncommitted changes")
os.makedirs(OUT, exist_ok=True)
for f in os.listdir(OUT):
    if f.endswith(".diff"):
        os.remove(os.path.join(OUT, f))
index = []
for name, prop, file, old, new, count in M:
    p = os.path.join(R, file)
    s = open(p).read()
    n = s.count(old)
    if n == 0 or (count == 1 and n != 1):
        print(f"SKIP {name}: pattern occurs {n} times in {file}")
        continue
    s2 = s.replace(old, new, 1) if count == 0 else s.replace(old, new)
    open(p, "w").write(s2)
    d = sh("git", "diff").stdout
    sh("git", "checkout", "--", ".")
    open(os.path.join(OUT, name + ".diff"), "w").write(d)
    index.append((name, prop))
open(os.path.join(OUT, "INDEX.tsv"), "w").write("".join(f"{n}\t{p}\n" for n, p in index))
print(f"{len(index)} patches written to {OUT}")
