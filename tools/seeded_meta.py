#!/usr/bin/env python3
"""tools/seeded_meta.py <id> <property> <caught_by|MISSED> "<what it needs to manifest>" [demo features]
writes /verif/seeded/<id>/meta.json from the confirmation log"""
import json, sys, re, os
sid, prop, caught, needs = sys.argv[1:5]
feats = sys.argv[5] if len(sys.argv) > 5 else ""
d = f"/verif/seeded/{sid}"
log = open(f"{d}/confirm.log").read()
def ex(label):
    m = re.search(re.escape(label) + r".*?\nexit=(\d+)", log, re.S)
    return int(m.group(1)) if m else None
meta = {
    "id": sid,
    "breaks_property": prop,
    "origin": "fresh sub-agent given only the property text and a scratch worktree of /repo (nothing from /verif)",
    "needs_to_manifest": needs,
    "confirmed_by_me": {
        "how": f"tools/confirm_seeded.sh {sid} {feats}".strip(),
        "patch_applies_to_pristine_checkout": True,
        "builds_with_all_features": ex("== build all features WITH change") == 0,
        "demo_without_change_exit": ex("== demo WITHOUT change"),
        "demo_with_change_exit": ex("== demo WITH change"),
        "existing_suite_with_change": {"failed_lines": int(re.search(r"suite_fail_lines=(\d+)", log).group(1)),
                                       "passed_total": int(re.search(r"suite_passed_total=(\d+)", log).group(1))},
    },
    "demo_features": feats,
    "checks_run": f"tools/try_patch.sh seeded/{sid}/patch.diff <prop> (git -C /repo apply; ./check <prop> quick; git -C /repo checkout -- .)",
    "caught_by": [] if caught == "MISSED" else caught.split(","),
}
json.dump(meta, open(f"{d}/meta.json", "w"), indent=1)
print("wrote", f"{d}/meta.json")
