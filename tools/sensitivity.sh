#!/bin/bash
# tools/sensitivity.sh [pattern]   — run every deliberate break in /verif/sensitivity (and every
# confirmed seeded change in /verif/seeded) against the check of the property it aims at,
# in a scratch copy of /repo + /verif/sim (neither /repo nor /verif/sim is touched), and
# write /verif/SENSITIVITY.md. The scratch copy is removed at the end.
set -u
pat="${1:-}"
export CARGO_NET_OFFLINE=true
S=$(mktemp -d /tmp/qx-sens-XXXX)
trap 'rm -rf "$S"' EXIT
rsync -a --exclude 'target' /repo/ "$S/repo/"
rsync -a --exclude 'target*' --exclude 'build-*.log' /verif/sim/ "$S/sim/"
sed -i 's|path = "/repo"|path = "../repo"|' "$S/sim/Cargo.toml"
cd "$S/sim" && cargo build --release --offline >/dev/null 2>&1 || { echo "baseline build failed"; exit 2; }
res="$S/results.tsv"; : > "$res"
run_one() { # name prop patchfile
    local name="$1" prop="$2" patch="$3" variant=plain feat=""
    case "$name" in *detect_enc*) variant=enc; feat="--features enc";; esac
    ( cd "$S/repo" && git checkout -q -- . && git apply "$patch" ) || { printf '%s\t%s\tPATCH-ERROR\t\n' "$name" "$prop" >> "$res"; return; }
    if ! ( cd "$S/sim" && cargo build --release --offline $feat >"$S/build.log" 2>&1 ); then
        printf '%s\t%s\tBUILD-ERROR\t\n' "$name" "$prop" >> "$res"; ( cd "$S/repo" && git checkout -q -- . ); return
    fi
    local out rc
    out=$("$S/sim/target/release/qxsim" check --prop "$prop" --tier quick --evidence "$S/ev.json" --replays "$S/rp" 2>&1); rc=$?
    if [ $rc -eq 0 ] && [ "$variant" = plain ] && [[ "$name" != neutral_* ]]; then
        # silent in the plain build: the change may sit in code that only exists with the
        # `encoding` / `overlapped-lists` features, which ./check covers with its second variant
        if ( cd "$S/sim" && cargo build --release --offline --features enc >"$S/build.log" 2>&1 ); then
            out=$("$S/sim/target/release/qxsim" check --prop "$prop" --tier quick --scale 0.25 --evidence "$S/ev.json" --replays "$S/rp" 2>&1); rc=$?
        fi
    fi
    local kind detail
    kind=$(echo "$out" | grep -m1 "^  kind:" | sed 's/^  kind: //')
    detail=$(echo "$out" | grep -m1 "document:" | cut -c1-100)
    case $rc in
      1) case "$name" in neutral_*) printf '%s\t%s\tFALSE-ALARM\t%s %s\n' "$name" "$prop" "$kind" "$detail" >> "$res";; *) printf '%s\t%s\tCAUGHT\t%s %s\n' "$name" "$prop" "$kind" "$detail" >> "$res";; esac;;
      0) case "$name" in neutral_*) printf '%s\t%s\tSILENT(expected)\t\n' "$name" "$prop" >> "$res";; *) printf '%s\t%s\tMISSED\t\n' "$name" "$prop" >> "$res";; esac;;
      *) printf '%s\t%s\tERROR(%s)\t%s\n' "$name" "$prop" "$rc" "$(echo "$out" | tail -2 | tr '\n' ' ' | cut -c1-200)" >> "$res";;
    esac
    ( cd "$S/repo" && git checkout -q -- . )
}
while IFS=$'\t' read -r name prop; do
    [ -n "$pat" ] && [[ "$name" != *$pat* ]] && continue
    run_one "$name" "$prop" "/verif/sensitivity/$name.diff"
    tail -1 "$res"
done < /verif/sensitivity/INDEX.tsv
for d in /verif/seeded/*/; do
    id=$(basename "$d"); [ -f "$d/patch.diff" ] || continue
    [ -n "$pat" ] && [[ "seeded-$id" != *$pat* ]] && continue
    prop=$(jq -r '.breaks_property // empty' "$d/meta.json" 2>/dev/null); [ -n "$prop" ] || prop=${id%%-*}
    pf="$d/patch.diff"
    # a later fix commit may touch the same lines: use the hand-rebased patch if there is one
    ls "$d"/patch-rebased-on-*.diff >/dev/null 2>&1 && pf=$(ls "$d"/patch-rebased-on-*.diff | tail -1)
    run_one "seeded-$id" "$prop" "$pf"
    tail -1 "$res"
done
if [ -z "$pat" ]; then
{
  echo "# Sensitivity: deliberate breaks versus the checks"
  echo
  echo "Produced by \`tools/sensitivity.sh\` on $(date -u +%Y-%m-%dT%H:%MZ) against /repo at $(git -C /repo rev-parse --short HEAD), quick tier, default seed."
  echo "Each row: one compiling change to quick-xml (own breaks from \`tools/make_sensitivity.py\`, \`seeded-*\` = changes written by independent sub-agents, see /verif/seeded), the property whose check was run, and the verdict."
  echo
  echo "| change | check | verdict | first violation (minimised) |"
  echo "|---|---|---|---|"
  while IFS=$'\t' read -r name prop verdict info; do echo "| $name | $prop | $verdict | ${info//|/\\|} |"; done < "$res"
  echo
  echo "Totals: $(grep -c CAUGHT "$res") caught, $(grep -c MISSED "$res") missed, $(grep -c ERROR "$res") errors; behaviour-preserving edits: $(grep -c SILENT "$res") silent, $(grep -c FALSE-ALARM "$res") false alarms."
} > /verif/SENSITIVITY.md
fi
awk -F'\t' '{print $3}' "$res" | sort | uniq -c
