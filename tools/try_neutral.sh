#!/bin/bash
# tools/try_neutral.sh <patch.diff>  — apply a behaviour-preserving change to /repo, run EVERY
# claimed check (quick) against it, undo. Every check must stay silent; a VIOLATION here is a
# false alarm of the check (or the change is not as harmless as claimed: then look at it).
set -u
patch="$(realpath "$1")"
cd /repo || exit 2
if ! git diff --quiet; then echo "refusing: /repo has uncommitted changes" >&2; exit 2; fi
git apply "$patch" || { echo "patch does not apply" >&2; exit 2; }
trap 'git -C /repo checkout -- . ' EXIT
bad=0
for p in C02 C03 C04 C05 C07 C09 C12 C14 C18; do
  out=$(/verif/check $p quick 2>&1); rc=$?
  if [ $rc -ne 0 ]; then bad=$((bad+1)); echo "ALARM $p exit=$rc"; echo "$out" | grep -E "kind:|^  |document:|HARNESS|error" | head -6; else echo "silent $p"; fi
done
echo "neutral check: $bad alarms"
