#!/bin/bash
# tools/determinism.sh [seeds]  — prove that one seed is one execution:
# for every claimed property and several VERIF_SEED values, run the search in separate
# processes with 1, 5 and 16 workers (and 16 twice) and compare the run digests
# (order-independent fold of hash(run index, outcome+trace hash) over all runs).
set -u
seeds="${1:-1 2 3 20260927 987654321}"
bin=/verif/sim/target-plain/release/qxsim
binenc=/verif/sim/target-enc/release/qxsim
T=$(mktemp -d /tmp/qx-det-XXXX); trap 'rm -rf "$T"' EXIT
bad=0; n=0
for prop in C02 C03 C04 C05 C07 C09 C12 C14 C18; do
  for seed in $seeds; do
    ref=""
    for b in $bin $binenc; do
      ref=""
      for w in 1 5 16 16; do
        o=$($b check --prop $prop --tier quick --scale 0.02 --seed $seed --workers $w --evidence $T/e.json --replays $T/rp); rc=$?
        d=$(echo "$o" | grep -o "digest [0-9a-f]*")
        n=$((n+1))
        if [ $rc -ne 0 ]; then echo "NON-ZERO EXIT ($rc) $prop seed=$seed workers=$w $b"; echo "$o" | grep -E "kind:|document:|^  " | head -4; bad=$((bad+1)); continue; fi
        if [ -z "$ref" ]; then ref="$d"; elif [ "$d" != "$ref" ]; then echo "DIVERGENCE $prop seed=$seed workers=$w $(basename $(dirname $(dirname $b))): $d vs $ref"; bad=$((bad+1)); fi
      done
    done
  done
  echo "$prop: ok so far ($n process runs, $bad divergences)"
done
echo "determinism: $n process runs, $bad divergences"
[ $bad -eq 0 ]
