#!/bin/bash
# tools/seed_sweep.sh "<seeds>" [scale] — run every claimed check (both variants) under several
# VERIF_SEED values on the current tree; any non-zero exit is printed. Evidence goes to a scratch dir.
seeds="${1:-1 2 3 4 5}"; scale="${2:-1}"
T=$(mktemp -d /tmp/qx-sweep-XXXX); trap 'rm -rf "$T"' EXIT
bad=0
for seed in $seeds; do
  for prop in C02 C03 C04 C05 C07 C09 C12 C14 C18; do
    for v in plain enc; do
      o=$(/verif/sim/target-$v/release/qxsim check --prop $prop --tier quick --scale $scale --seed $seed --evidence $T/e.json --replays $T/rp 2>&1); rc=$?
      if [ $rc -ne 0 ]; then bad=$((bad+1)); echo "seed=$seed $prop [$v] exit=$rc"; echo "$o" | grep -E "kind:|document:|^  |HARNESS" | head -5; cp $T/rp/*.json /tmp/ 2>/dev/null; fi
    done
  done
  echo "seed $seed done (bad so far: $bad)"
done
echo "sweep finished: $bad failing runs"
