#!/usr/bin/env python3
"""Regenerates the table of sub-agent changes in DESIGN.md (between the SEEDED-TABLE markers) from /verif/seeded/*/meta.json"""
import json, glob, os, re
rows = []
for d in sorted(glob.glob('/verif/seeded/*/')):
    mp = os.path.join(d, 'meta.json')
    if not os.path.exists(mp):
        continue
    m = json.load(open(mp))
    caught = ", ".join(m.get('caught_by') or []) or "—"
    hist = m.get('history', '')
    status = caught
    if not m.get('caught_by'):
        status = "missed → " + (m.get('status') or 'see meta.json')
    elif hist.startswith('MISSED') or hist.startswith('Missed') or 'would have been missed' in hist or 'missed until' in m.get('needs_to_manifest', ''):
        status = caught + " (missed at first; check strengthened)"
    needs = m['needs_to_manifest'].replace('|', '\\|').replace('\n', ' ')
    rows.append(f"| {m['id']} | {needs} | {status} |")
table = "| id | what it needs to manifest | caught by |\n|---|---|---|\n" + "\n".join(rows)
n = len(rows)
missed_first = sum(1 for r in rows if '(missed at first' in r)
not_caught = sum(1 for r in rows if '| missed →' in r)
p = '/verif/DESIGN.md'
s = open(p).read()
a = s.index('<!-- SEEDED-TABLE-BEGIN -->'); b = s.index('<!-- SEEDED-TABLE-END -->')
s = s[:a] + '<!-- SEEDED-TABLE-BEGIN -->\n' + f"{n} changes so far; {missed_first} of them were missed by the check as it stood when the change arrived and led to a stronger check; {not_caught} are not caught (one made obsolete by a fix, one outside what the claimed properties say — details in each `meta.json`).\n\n" + table + '\n' + s[b:]
open(p, 'w').write(s)
print(n, "rows;", missed_first, "missed at first;", not_caught, "not caught")
