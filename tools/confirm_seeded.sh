#!/bin/bash
# tools/confirm_seeded.sh <id> [demo-features]
# Confirms a seeded change produced by a sub-agent in its scratch worktree /tmp/wt-<id>:
#   1. patch applies to a pristine checkout, crate builds with all features
#   2. the existing test suite (default features) passes with the change
#   3. the demonstration fails with the change and passes without it
# and files it under /verif/seeded/<id>/ (patch.diff, demo.rs, notes.md, confirm.log).
set -u
id="$1"; feats="${2:-}"
wt=/tmp/wt-$id; out=/tmp/seeded-out/$id; dst=/verif/seeded/$id
export CARGO_NET_OFFLINE=true
[ -f "$out/patch.diff" ] || { echo "no patch for $id"; exit 2; }
mkdir -p "$dst"
cd "$wt" || exit 2
git checkout -q -- src 2>/dev/null
git apply --check "$out/patch.diff" || { echo "patch does not apply"; exit 2; }
cp "$out/demo.rs" tests/seeded_demo.rs
fa=""; [ -n "$feats" ] && fa="--features $feats"
log="$dst/confirm.log"; : > "$log"
echo "== demo WITHOUT change ($fa)" | tee -a "$log"
cargo test --offline $fa --test seeded_demo >>"$log" 2>&1; without=$?
echo "exit=$without" | tee -a "$log"
git apply "$out/patch.diff"
echo "== build all features WITH change" | tee -a "$log"
cargo build --offline --features async-tokio,serialize,encoding,overlapped-lists >>"$log" 2>&1; b=$?
echo "exit=$b" | tee -a "$log"
echo "== demo WITH change ($fa)" | tee -a "$log"
cargo test --offline $fa --test seeded_demo >>"$log" 2>&1; with=$?
echo "exit=$with" | tee -a "$log"
echo "== existing suite WITH change (default features; demo file moved away)" | tee -a "$log"
mv tests/seeded_demo.rs /tmp/seeded-out/$id/.demo.keep
cargo test --workspace --no-fail-fast --offline 2>&1 | grep -E "^test result|FAILED|failed|^error" >"$dst/suite.log";
cat "$dst/suite.log" >>"$log"
suite_fail=$(grep -c "FAILED\|[1-9][0-9]* failed\|^error" "$dst/suite.log")
passed=$(grep -o "[0-9]* passed" "$dst/suite.log" | awk '{s+=$1} END {print s}')
echo "suite_passed_total=$passed" | tee -a "$log"
mv /tmp/seeded-out/$id/.demo.keep tests/seeded_demo.rs
echo "suite_fail_lines=$suite_fail" | tee -a "$log"
cp "$out/patch.diff" "$dst/patch.diff"; cp "$out/demo.rs" "$dst/demo.rs"; cp "$out/notes.md" "$dst/notes.md" 2>/dev/null
if [ $without -eq 0 ] && [ $with -ne 0 ] && [ $b -eq 0 ] && [ "$suite_fail" = 0 ]; then echo "CONFIRMED $id"; else echo "NOT CONFIRMED $id (without=$without with=$with build=$b suite_fail=$suite_fail)"; fi
