#!/bin/bash
# tools/try_patch.sh <patch.diff> <prop> [tier]   apply a deliberate break to /repo, run one check, undo.
# Prints CAUGHT / MISSED. /repo is restored even on error.
set -u
patch="$(realpath "$1")"; prop="$2"; tier="${3:-quick}"
cd /repo || exit 2
if ! git diff --quiet; then echo "refusing: /repo has uncommitted changes" >&2; exit 2; fi
git apply "$patch" || { echo "patch does not apply: $patch" >&2; exit 2; }
trap 'git -C /repo checkout -- . ' EXIT
out=$(/verif/check "$prop" "$tier" 2>&1); rc=$?
echo "$out" | grep -E "VIOLATION|kind:|HARNESS|^  " | head -8
if [ $rc -eq 1 ]; then echo "CAUGHT $(basename $patch) by $prop"; elif [ $rc -eq 0 ]; then echo "MISSED $(basename $patch) by $prop"; else echo "ERROR($rc) $(basename $patch) $prop"; echo "$out" | tail -5; fi
exit 0
